#include "sim.hpp"

#include <algorithm>
#include <chrono>
#include <cstdlib>
#include <cstring>
#include <fstream>
#include <set>
#include <sstream>

#include <fcntl.h>
#include <poll.h>
#include <signal.h>
#include <sys/stat.h>
#include <sys/types.h>
#include <sys/wait.h>
#include <unistd.h>

// Sanitizer aborts must be distinguishable from everything else (exit code 77)
// and LeakSanitizer must stay quiet (worlds are torn down by process exit).
extern "C" __attribute__(( used, visibility( "default" ) )) const char* __asan_default_options()
{
    return "exitcode=77:detect_leaks=0:abort_on_error=0:allocator_may_return_null=1:detect_stack_use_after_return=0:quarantine_size_mb=2:thread_local_quarantine_size_kb=64:malloc_context_size=8";
}
extern "C" __attribute__(( used, visibility( "default" ) )) const char* __ubsan_default_options()
{
    return "halt_on_error=1:exitcode=77:print_stacktrace=1";
}

namespace sim {

// ------------------------------------------------------------------ helpers
std::string hex( const std::uint8_t* p, std::size_t n )
{
    static const char d[] = "0123456789abcdef";
    std::string r;
    r.reserve( n * 2 );
    for ( std::size_t i = 0; i != n; ++i )
    {
        r.push_back( d[ p[ i ] >> 4 ] );
        r.push_back( d[ p[ i ] & 15 ] );
    }
    return r;
}

static inline void fnv( std::uint64_t& h, const char* p, std::size_t n )
{
    for ( std::size_t i = 0; i != n; ++i )
    {
        h ^= static_cast< unsigned char >( p[ i ] );
        h *= 1099511628211ull;
    }
    h ^= 0xff;
    h *= 1099511628211ull;
}

void Result::note( const char* fmt, ... )
{
    char buf[ 512 ];
    va_list ap;
    va_start( ap, fmt );
    int n = vsnprintf( buf, sizeof buf, fmt, ap );
    va_end( ap );
    if ( n < 0 ) n = 0;
    if ( n >= static_cast< int >( sizeof buf ) ) n = sizeof buf - 1;
    fnv( hash, buf, static_cast< std::size_t >( n ) );
    ++steps;
    if ( verbose )
        log.emplace_back( buf, buf + n );
}

void Result::note_bytes( const char* tag, const std::uint8_t* p, std::size_t n )
{
    fnv( hash, tag, std::strlen( tag ) );
    fnv( hash, reinterpret_cast< const char* >( p ), n );
    ++steps;
    if ( verbose )
        log.push_back( std::string( tag ) + " " + hex( p, n ) );
}

void Result::violate( const std::string& property, const std::string& rule, const std::string& key, long op_index, const char* fmt, ... )
{
    char buf[ 1024 ];
    va_list ap;
    va_start( ap, fmt );
    vsnprintf( buf, sizeof buf, fmt, ap );
    va_end( ap );
    if ( verbose )
        log.push_back( "!! " + property + "/" + rule + " [" + key + "] " + buf );
    if ( violations.size() >= 16 )
        return;
    Violation v;
    v.property = property;
    v.rule     = rule;
    v.key      = key;
    v.detail   = buf;
    v.op_index = op_index;
    violations.push_back( v );
}

// ------------------------------------------------------------------ plan text
std::string plan_to_text( const Plan& p, const std::vector< std::string >* names )
{
    std::ostringstream o;
    o << "bluetoe-sim-replay 1\n";
    o << "harness " << p.harness << "\n";
    o << "property " << p.property << "\n";
    o << "seed " << p.seed << "\n";
    o << "config " << p.config << "\n";
    for ( const auto& k : p.knobs )
        o << "knob " << k.first << " " << k.second << "\n";
    for ( const auto& op : p.ops )
    {
        o << "op " << op.kind;
        for ( auto a : op.a )
            o << " " << a;
        if ( !op.bytes.empty() )
            o << " : " << hex( op.bytes );
        if ( names && op.kind >= 0 && static_cast< std::size_t >( op.kind ) < names->size() )
            o << " # " << ( *names )[ op.kind ];
        o << "\n";
    }
    o << "end\n";
    return o.str();
}

static int hexval( char c )
{
    if ( c >= '0' && c <= '9' ) return c - '0';
    if ( c >= 'a' && c <= 'f' ) return c - 'a' + 10;
    if ( c >= 'A' && c <= 'F' ) return c - 'A' + 10;
    return -1;
}

bool plan_from_text( const std::string& text, Plan& p )
{
    std::istringstream in( text );
    std::string line;
    if ( !std::getline( in, line ) || line.rfind( "bluetoe-sim-replay", 0 ) != 0 )
        return false;
    p = Plan();
    bool ended = false;
    while ( std::getline( in, line ) )
    {
        auto hash = line.find( '#' );
        if ( hash != std::string::npos )
            line.erase( hash );
        std::istringstream l( line );
        std::string word;
        if ( !( l >> word ) )
            continue;
        if ( word == "harness" ) l >> p.harness;
        else if ( word == "property" ) l >> p.property;
        else if ( word == "seed" ) l >> p.seed;
        else if ( word == "config" ) l >> p.config;
        else if ( word == "knob" )
        {
            std::string n; std::int64_t v = 0;
            l >> n >> v;
            p.knobs[ n ] = v;
        }
        else if ( word == "op" )
        {
            Op op;
            l >> op.kind;
            std::string tok;
            bool bytes = false;
            while ( l >> tok )
            {
                if ( tok == ":" ) { bytes = true; continue; }
                if ( bytes )
                {
                    for ( std::size_t i = 0; i + 1 < tok.size(); i += 2 )
                    {
                        int a = hexval( tok[ i ] ), b = hexval( tok[ i + 1 ] );
                        if ( a < 0 || b < 0 ) return false;
                        op.bytes.push_back( static_cast< std::uint8_t >( a * 16 + b ) );
                    }
                }
                else
                    op.a.push_back( std::strtoll( tok.c_str(), nullptr, 10 ) );
            }
            p.ops.push_back( op );
        }
        else if ( word == "end" ) { ended = true; break; }
        else return false;
    }
    return ended;
}

// ------------------------------------------------------------------ runner
namespace {

struct Known { std::string property, key, description; };

struct Options {
    std::string property;
    bool        thorough = false;
    std::uint64_t seed = 1;
    std::uint64_t runs = 0;
    unsigned    workers = 14;
    double      wall = 0;
    std::string out;
    std::string replay_dir = "replays";
    std::string replay;
    bool        verbose = false;
    bool        print_plan = false;
    bool        survey = false;     // development aid: count every violation key of every property, never stop, never shrink
    std::string hash_list;          // development aid: write "index hash" of every run, sorted by index (determinism self test)
    std::string minimise;           // development aid (with --replay): shrink the plan while a violation whose "property/key" contains this text persists, print it
    std::uint64_t index = 0;
    std::vector< Known > known;
    std::string self;
};

double now_s()
{
    using namespace std::chrono;
    return duration< double >( steady_clock::now().time_since_epoch() ).count();
}

bool known_matches( const Known& k, const std::string& property, const std::string& key )
{
    if ( k.property != property ) return false;
    // 'text*' matches a prefix, '*text' a suffix, '*text*' text anywhere
    const bool tail = !k.key.empty() && k.key.back() == '*';
    const bool head = k.key.size() > 1 && k.key.front() == '*';
    const std::string text = k.key.substr( head ? 1 : 0, k.key.size() - ( head ? 1 : 0 ) - ( tail ? 1 : 0 ) );
    if ( head && tail ) return key.find( text ) != std::string::npos;
    if ( tail ) return key.compare( 0, text.size(), text ) == 0;
    if ( head ) return key.size() >= text.size() && key.compare( key.size() - text.size(), text.size(), text ) == 0;
    return k.key == key;
}

const Known* find_known( const Options& o, const std::string& property, const std::string& key )
{
    for ( const auto& k : o.known )
        if ( known_matches( k, property, key ) )
            return &k;
    return nullptr;
}

// first violation of the target property that is not a known finding
const Violation* first_unknown( const Options& o, const Result& r, const std::string& property )
{
    for ( const auto& v : r.violations )
        if ( v.property == property && !find_known( o, property, v.key ) )
            return &v;
    return nullptr;
}

const Violation* same_rule_unknown( const Options& o, const Result& r, const std::string& property, const std::string& rule )
{
    for ( const auto& v : r.violations )
        if ( v.property == property && v.rule == rule && !find_known( o, property, v.key ) )
            return &v;
    return nullptr;
}

std::string json_escape( const std::string& s )
{
    std::string r;
    for ( unsigned char c : s )
    {
        switch ( c )
        {
        case '"': r += "\\\""; break;
        case '\\': r += "\\\\"; break;
        case '\n': r += "\\n"; break;
        case '\t': r += "\\t"; break;
        case '\r': r += "\\r"; break;
        default:
            if ( c < 0x20 ) { char b[ 8 ]; snprintf( b, sizeof b, "\\u%04x", c ); r += b; }
            else r.push_back( static_cast< char >( c ) );
        }
    }
    return r;
}

std::string sanitize_line( std::string s )
{
    for ( auto& c : s )
        if ( c == '\n' || c == '\r' || c == '|' ) c = ' ';
    return s;
}

// ---- isolated execution: fork, run, report through a pipe
struct Isolated {
    bool        crashed = false;
    int         status = 0;
    std::uint64_t hash = 0;
    std::vector< Violation > violations;
};

Isolated run_isolated( const Harness& h, const Plan& plan, bool verbose_to_stdout = false )
{
    Isolated res;
    int fd[ 2 ];
    if ( pipe( fd ) != 0 ) { res.crashed = true; return res; }
    fflush( stdout ); fflush( stderr );
    pid_t pid = fork();
    if ( pid == 0 )
    {
        close( fd[ 0 ] );
        alarm( 120 );
        Result r;
        r.verbose = verbose_to_stdout;
        h.execute( plan, r );
        if ( verbose_to_stdout )
        {
            for ( const auto& l : r.log ) printf( "  %s\n", l.c_str() );
            fflush( stdout );
        }
        std::ostringstream o;
        o << "H " << r.hash << "\n";
        for ( const auto& v : r.violations )
            o << "V " << v.property << "|" << v.rule << "|" << sanitize_line( v.key ) << "|" << v.op_index << "|" << sanitize_line( v.detail ) << "\n";
        o << "D\n";
        std::string s = o.str();
        ssize_t w = write( fd[ 1 ], s.data(), s.size() );
        (void)w;
        _exit( 0 );
    }
    close( fd[ 1 ] );
    std::string data;
    char buf[ 4096 ];
    ssize_t n;
    while ( ( n = read( fd[ 0 ], buf, sizeof buf ) ) > 0 )
        data.append( buf, static_cast< std::size_t >( n ) );
    close( fd[ 0 ] );
    int status = 0;
    waitpid( pid, &status, 0 );
    res.status = status;
    bool done = false;
    std::istringstream in( data );
    std::string line;
    while ( std::getline( in, line ) )
    {
        if ( line.rfind( "H ", 0 ) == 0 ) res.hash = std::strtoull( line.c_str() + 2, nullptr, 10 );
        else if ( line.rfind( "V ", 0 ) == 0 )
        {
            Violation v;
            std::vector< std::string > parts;
            std::string rest = line.substr( 2 );
            std::size_t pos = 0;
            for ( int i = 0; i < 4; ++i )
            {
                auto bar = rest.find( '|', pos );
                parts.push_back( rest.substr( pos, bar - pos ) );
                pos = bar == std::string::npos ? rest.size() : bar + 1;
            }
            parts.push_back( rest.substr( pos ) );
            v.property = parts[ 0 ]; v.rule = parts[ 1 ]; v.key = parts[ 2 ];
            v.op_index = std::strtol( parts[ 3 ].c_str(), nullptr, 10 );
            v.detail = parts[ 4 ];
            res.violations.push_back( v );
        }
        else if ( line == "D" ) done = true;
    }
    res.crashed = !done || !WIFEXITED( status ) || WEXITSTATUS( status ) != 0;
    return res;
}

// ---- shrinking (ddmin over ops, then per-op simplification)
Plan shrink( const Harness& h, Plan plan, const std::function< bool( const Plan& ) >& fails, unsigned max_trials, double max_seconds, unsigned& trials )
{
    const double t0 = now_s();
    trials = 0;
    auto budget_left = [&]{ return trials < max_trials && now_s() - t0 < max_seconds; };
    auto test = [&]( const Plan& c ) { ++trials; return fails( c ); };

    std::size_t n = 2;
    while ( plan.ops.size() >= 2 && budget_left() )
    {
        const std::size_t size  = plan.ops.size();
        const std::size_t chunk = ( size + n - 1 ) / n;
        bool reduced = false;
        for ( std::size_t start = 0; start < size && budget_left(); start += chunk )
        {
            Plan c = plan;
            c.ops.erase( c.ops.begin() + static_cast< long >( start ), c.ops.begin() + static_cast< long >( std::min( size, start + chunk ) ) );
            if ( test( c ) )
            {
                plan = c;
                n = std::max< std::size_t >( n - 1, 2 );
                reduced = true;
                break;
            }
        }
        if ( !reduced )
        {
            if ( n >= size ) break;
            n = std::min( size, n * 2 );
        }
    }
    // single removals until fix point
    for ( bool again = true; again && budget_left(); )
    {
        again = false;
        for ( std::size_t i = plan.ops.size(); i-- > 0 && budget_left(); )
        {
            if ( plan.ops.size() <= 1 ) break;
            Plan c = plan;
            c.ops.erase( c.ops.begin() + static_cast< long >( i ) );
            if ( test( c ) ) { plan = c; again = true; }
        }
    }
    // per-op simplification
    for ( bool again = true; again && budget_left(); )
    {
        again = false;
        for ( std::size_t i = 0; i < plan.ops.size() && budget_left(); ++i )
        {
            for ( const Op& cand : h.simplify( plan, i ) )
            {
                if ( !budget_left() ) break;
                if ( cand == plan.ops[ i ] ) continue;
                Plan c = plan;
                c.ops[ i ] = cand;
                if ( test( c ) ) { plan = c; again = true; break; }
            }
        }
    }
    return plan;
}

void mkdirs( const std::string& path )
{
    std::string cur;
    for ( std::size_t i = 0; i <= path.size(); ++i )
    {
        if ( i == path.size() || path[ i ] == '/' )
        {
            if ( !cur.empty() ) mkdir( cur.c_str(), 0777 );
        }
        if ( i < path.size() ) cur.push_back( path[ i ] );
    }
}

std::string write_replay( const Harness& h, const Options& o, const Plan& plan, const std::string& comment )
{
    const std::string dir = o.replay_dir + "/" + o.property;
    mkdirs( dir );
    char name[ 256 ];
    snprintf( name, sizeof name, "%s/%s-%llu.replay", dir.c_str(), h.name(), static_cast< unsigned long long >( plan.seed ) );
    std::ofstream f( name );
    auto names = h.op_names();
    f << plan_to_text( plan, names.empty() ? nullptr : &names );
    std::istringstream c( comment );
    std::string l;
    while ( std::getline( c, l ) ) f << "# " << l << "\n";
    return name;
}

// ---- worker
struct WorkerCounters {
    std::map< std::string, std::uint64_t > faults, probes, known, cross;
    std::uint64_t sim_time_us = 0, steps = 0;
    void flush( FILE* out )
    {
        for ( auto& f : faults ) fprintf( out, "F %s %llu\n", f.first.c_str(), (unsigned long long)f.second );
        for ( auto& f : probes ) fprintf( out, "P %s %llu\n", f.first.c_str(), (unsigned long long)f.second );
        for ( auto& f : known )  fprintf( out, "K %s|%llu\n", f.first.c_str(), (unsigned long long)f.second );
        for ( auto& f : cross )  fprintf( out, "X %s %llu\n", f.first.c_str(), (unsigned long long)f.second );
        fprintf( out, "T %llu %llu\n", (unsigned long long)sim_time_us, (unsigned long long)steps );
        faults.clear(); probes.clear(); known.clear(); cross.clear(); sim_time_us = 0; steps = 0;
        fflush( out );
    }
};

[[noreturn]] void worker( const Harness& h, const Options& o, std::uint64_t first, std::uint64_t runs, unsigned stride, double deadline, int fd )
{
    FILE* out = fdopen( fd, "w" );
    WorkerCounters cnt;
    std::uint64_t since_flush = 0;
    std::set< std::string > reported;       // rule|key this worker has already minimised and reported
    for ( std::uint64_t i = first; i < runs; i += stride )
    {
        if ( now_s() > deadline ) { fprintf( out, "L %llu\n", (unsigned long long)i ); break; }
        fprintf( out, "S %llu\n", (unsigned long long)i );
        fflush( out );
        const Plan plan = h.generate( mix( o.seed, i ), o.property, o.thorough );
        Result r;
        h.execute( plan, r );
        for ( auto& f : r.faults ) cnt.faults[ f.first ] += f.second;
        for ( auto& f : r.probes ) cnt.probes[ f.first ] += f.second;
        cnt.sim_time_us += r.sim_time_us;
        cnt.steps += r.steps;
        std::set< std::string > seen_known;
        for ( const auto& v : r.violations )
        {
            if ( v.property != o.property ) { cnt.cross[ v.property ]++; continue; }
            if ( const Known* k = find_known( o, v.property, v.key ) )
                if ( seen_known.insert( k->key ).second ) cnt.known[ k->key ]++;
        }
        if ( o.survey )
        {
            std::set< std::string > once;
            for ( const auto& v : r.violations )
                if ( once.insert( v.property + "|" + v.rule + "|" + v.key ).second )
                    fprintf( out, "Y %s|%s|%s|%llu\n", v.property.c_str(), v.rule.c_str(), sanitize_line( v.key ).c_str(), (unsigned long long)i );
        }
        else if ( const Violation* v = first_unknown( o, r, o.property ); v && reported.insert( v->rule + "|" + v->key ).second )
        {
            const std::string rule = v->rule;
            // gate 1: same plan, same process, same trace and same rule
            Result r2;
            h.execute( plan, r2 );
            if ( r2.hash != r.hash || !same_rule_unknown( o, r2, o.property, rule ) )
            {
                std::string path = write_replay( h, o, plan, "NONDETERMINISTIC: re-execution gave a different trace" );
                fprintf( out, "N %llu %s\n", (unsigned long long)i, path.c_str() );
                fflush( out );
                _exit( 3 );
            }
            unsigned trials = 0;
            Plan minimal = shrink( h, plan, [&]( const Plan& c ) {
                Result rc;
                h.execute( c, rc );
                return same_rule_unknown( o, rc, o.property, rule ) != nullptr;
            }, 2000, o.thorough ? 30.0 : 8.0, trials );
            Result rm;
            rm.verbose = true;
            h.execute( minimal, rm );
            const Violation* vm = same_rule_unknown( o, rm, o.property, rule );
            std::ostringstream c;
            c << "violation " << o.property << "/" << rule << " key=" << ( vm ? vm->key : "?" ) << "\n";
            c << ( vm ? vm->detail : std::string( "?" ) ) << "\n";
            c << "original plan: seed " << plan.seed << " with " << plan.ops.size() << " ops; minimised to " << minimal.ops.size() << " ops in " << trials << " re-executions\n";
            c << "trace of the minimised run:\n";
            for ( const auto& l : rm.log ) c << "  " << l << "\n";
            std::string path = write_replay( h, o, minimal, c.str() );
            fprintf( out, "V %llu|%s|%s|%s|%s\n", (unsigned long long)i, rule.c_str(), sanitize_line( vm ? vm->key : "" ).c_str(), path.c_str(),
                     sanitize_line( vm ? vm->detail : "" ).c_str() );
            fflush( out );
        }
        fprintf( out, "R %llu %llu %d\n", (unsigned long long)i, (unsigned long long)r.hash, r.nontrivial ? 1 : 0 );
        if ( ++since_flush >= 100 ) { cnt.flush( out ); since_flush = 0; }
    }
    cnt.flush( out );
    fprintf( out, "D\n" );
    fflush( out );
    _exit( 0 );
}

struct Slot {
    pid_t       pid = -1;
    int         fd = -1;
    std::string buf;
    std::uint64_t last_started = ~0ull;
    bool        has_started = false;
    bool        done = false;
};

int replay_mode( const Harness& h, const Options& o )
{
    std::ifstream f( o.replay );
    std::stringstream ss;
    ss << f.rdbuf();
    Plan plan;
    if ( !f || !plan_from_text( ss.str(), plan ) )
    {
        fprintf( stderr, "cannot read replay file %s\n", o.replay.c_str() );
        return 2;
    }
    if ( plan.harness != h.name() )
    {
        fprintf( stderr, "replay file is for harness %s, this is %s\n", plan.harness.c_str(), h.name() );
        return 2;
    }
    const std::string property = o.property.empty() ? plan.property : o.property;
    if ( !o.minimise.empty() )
    {
        unsigned trials = 0;
        auto fails = [&]( const Plan& c ) {
            Isolated r = run_isolated( h, c, false );
            for ( const auto& v : r.violations ) if ( ( v.property + "/" + v.key ).find( o.minimise ) != std::string::npos ) return true;
            return false;
        };
        if ( !fails( plan ) ) { printf( "no violation matching '%s' in this replay\n", o.minimise.c_str() ); return 0; }
        plan = shrink( h, plan, fails, 600, 120.0, trials );
        auto names = h.op_names();
        fputs( plan_to_text( plan, names.empty() ? nullptr : &names ).c_str(), stdout );
        printf( "# minimised in %u re-executions\n", trials );
        run_isolated( h, plan, true );
        return 0;
    }
    printf( "replaying %s (harness %s, property %s, seed %llu, %zu ops)\n", o.replay.c_str(), plan.harness.c_str(), property.c_str(),
            (unsigned long long)plan.seed, plan.ops.size() );
    Isolated r = run_isolated( h, plan, o.verbose );
    printf( "trace hash %llu\n", (unsigned long long)r.hash );
    int rc = 0;
    if ( r.crashed )
    {
        printf( "run aborted (status 0x%x%s)\n", r.status, WIFEXITED( r.status ) && WEXITSTATUS( r.status ) == 77 ? ", sanitizer report" : "" );
        if ( h.memory_safety_property( property ) )
        {
            printf( "VIOLATION property=%s replay=%s\n", property.c_str(), o.replay.c_str() );
            rc = 1;
        }
    }
    std::set< std::string > printed;
    for ( const auto& v : r.violations )
    {
        printf( "  %s/%s [%s] at op %ld: %s\n", v.property.c_str(), v.rule.c_str(), v.key.c_str(), v.op_index, v.detail.c_str() );
        if ( v.property != property ) continue;
        if ( const Known* k = find_known( o, v.property, v.key ) )
        {
            if ( printed.insert( k->key ).second )
                printf( "KNOWN-FINDING: property=%s %s\n", property.c_str(), k->description.c_str() );
        }
        else if ( rc == 0 )
        {
            printf( "VIOLATION property=%s replay=%s\n", property.c_str(), o.replay.c_str() );
            rc = 1;
        }
    }
    if ( rc == 0 ) printf( "no violation of %s in this replay\n", property.c_str() );
    return rc;
}

bool confirm_in_fresh_process( const Options& o, const std::string& path )
{
    fflush( stdout ); fflush( stderr );
    pid_t pid = fork();
    if ( pid == 0 )
    {
        int devnull = open( "/dev/null", 1 );
        if ( devnull >= 0 ) { dup2( devnull, 1 ); dup2( devnull, 2 ); }
        std::vector< std::string > args = { o.self, "--replay", path, "--property", o.property };
        for ( const auto& k : o.known )
        {
            args.push_back( "--known" );
            args.push_back( k.property + "|" + k.key + "|" + k.description );
        }
        std::vector< char* > argv;
        for ( auto& a : args ) argv.push_back( const_cast< char* >( a.c_str() ) );
        argv.push_back( nullptr );
        execv( o.self.c_str(), argv.data() );
        _exit( 99 );
    }
    int status = 0;
    waitpid( pid, &status, 0 );
    return WIFEXITED( status ) && WEXITSTATUS( status ) == 1;
}

} // namespace

int sim_main( int argc, char** argv, const Harness& h )
{
    Options o;
    o.self = argv[ 0 ];
    {
        char buf[ 4096 ];
        ssize_t n = readlink( "/proc/self/exe", buf, sizeof buf - 1 );
        if ( n > 0 ) { buf[ n ] = 0; o.self = buf; }
    }
    if ( const char* e = getenv( "VERIF_SEED" ) ) o.seed = std::strtoull( e, nullptr, 10 );
    for ( int i = 1; i < argc; ++i )
    {
        std::string a = argv[ i ];
        auto val = [&]() -> std::string { return i + 1 < argc ? argv[ ++i ] : ""; };
        if ( a == "--property" ) o.property = val();
        else if ( a == "--tier" ) o.thorough = val() == "thorough";
        else if ( a == "--seed" ) o.seed = std::strtoull( val().c_str(), nullptr, 10 );
        else if ( a == "--runs" ) o.runs = std::strtoull( val().c_str(), nullptr, 10 );
        else if ( a == "--workers" ) o.workers = static_cast< unsigned >( std::atoi( val().c_str() ) );
        else if ( a == "--wall" ) o.wall = std::atof( val().c_str() );
        else if ( a == "--out" ) o.out = val();
        else if ( a == "--replay-dir" ) o.replay_dir = val();
        else if ( a == "--replay" ) o.replay = val();
        else if ( a == "--verbose" ) o.verbose = true;
        else if ( a == "--print-plan" ) o.print_plan = true;
        else if ( a == "--survey" ) o.survey = true;
        else if ( a == "--minimise" ) o.minimise = val();
        else if ( a == "--hash-list" ) o.hash_list = val();
        else if ( a == "--index" ) o.index = std::strtoull( val().c_str(), nullptr, 10 );
        else if ( a == "--known" )
        {
            std::string k = val();
            Known kn;
            auto p1 = k.find( '|' );
            auto p2 = k.find( '|', p1 == std::string::npos ? 0 : p1 + 1 );
            if ( p1 == std::string::npos || p2 == std::string::npos ) { fprintf( stderr, "bad --known\n" ); return 2; }
            kn.property = k.substr( 0, p1 ); kn.key = k.substr( p1 + 1, p2 - p1 - 1 ); kn.description = k.substr( p2 + 1 );
            o.known.push_back( kn );
        }
        else { fprintf( stderr, "unknown argument %s\n", a.c_str() ); return 2; }
    }

    if ( !o.replay.empty() )
        return replay_mode( h, o );

    {
        auto props = h.properties();
        if ( std::find( props.begin(), props.end(), o.property ) == props.end() )
        {
            fprintf( stderr, "%s has no oracle for property '%s'\n", h.name(), o.property.c_str() );
            return 2;
        }
    }

    if ( o.print_plan )
    {
        Plan p = h.generate( mix( o.seed, o.index ), o.property, o.thorough );
        auto names = h.op_names();
        fputs( plan_to_text( p, names.empty() ? nullptr : &names ).c_str(), stdout );
        return 0;
    }

    if ( o.runs == 0 ) o.runs = h.default_runs( o.property, o.thorough );
    if ( o.wall <= 0 ) o.wall = o.thorough ? 1500 : 150;
    if ( o.workers < 1 ) o.workers = 1;
    if ( o.workers > 64 ) o.workers = 64;

    const double t0 = now_s();
    const double deadline = t0 + o.wall;
    printf( "%s: property %s tier %s VERIF_SEED %llu runs %llu workers %u\n", h.name(), o.property.c_str(), o.thorough ? "thorough" : "quick",
            (unsigned long long)o.seed, (unsigned long long)o.runs, o.workers );
    fflush( stdout );

    std::vector< Slot > slots( o.workers );
    auto spawn = [&]( unsigned w, std::uint64_t first ) {
        int fd[ 2 ];
        if ( pipe( fd ) != 0 ) { perror( "pipe" ); exit( 2 ); }
        fflush( stdout ); fflush( stderr );
        pid_t pid = fork();
        if ( pid == 0 )
        {
            close( fd[ 0 ] );
            for ( auto& s : slots ) if ( s.fd >= 0 ) close( s.fd );
            worker( h, o, first, o.runs, o.workers, deadline, fd[ 1 ] );
        }
        close( fd[ 1 ] );
        slots[ w ].pid = pid; slots[ w ].fd = fd[ 0 ]; slots[ w ].buf.clear(); slots[ w ].done = false; slots[ w ].has_started = false;
    };
    for ( unsigned w = 0; w < o.workers; ++w )
        spawn( w, w );

    std::uint64_t evaluations = 0, nontrivial_runs = 0, aborted = 0, truncated_at = 0;
    bool truncated = false;
    std::set< std::uint64_t > distinct;
    std::vector< std::uint64_t > sample_indices;
    std::map< std::string, std::uint64_t > faults, probes, known_seen, cross;
    std::uint64_t sim_time_us = 0, steps = 0;
    std::map< std::string, std::pair< std::uint64_t, std::uint64_t > > survey;    // key -> (count, first run index)
    struct Found { std::uint64_t index; std::string rule, key, path, detail; };
    std::vector< Found > found;
    std::vector< std::uint64_t > crashed_runs;
    int fatal = 0;

    std::map< std::uint64_t, std::uint64_t > all_hashes;
    auto handle_line = [&]( Slot& s, const std::string& line ) {
        const char* p = line.c_str();
        switch ( p[ 0 ] )
        {
        case 'S': s.last_started = std::strtoull( p + 2, nullptr, 10 ); s.has_started = true; break;
        case 'R': {
            char* e = nullptr;
            std::uint64_t idx = std::strtoull( p + 2, &e, 10 );
            std::uint64_t hash = std::strtoull( e, &e, 10 );
            int nt = std::atoi( e );
            ++evaluations;
            if ( !o.hash_list.empty() ) all_hashes[ idx ] = hash;
            s.has_started = false;
            if ( nt )
            {
                ++nontrivial_runs;
                distinct.insert( hash );
                if ( sample_indices.size() < 64 ) sample_indices.push_back( idx );
            }
            break; }
        case 'F': case 'P': case 'X': {
            std::istringstream l( line.substr( 2 ) );
            std::string n; std::uint64_t c = 0;
            l >> n >> c;
            ( p[ 0 ] == 'F' ? faults : p[ 0 ] == 'P' ? probes : cross )[ n ] += c;
            break; }
        case 'K': {
            auto bar = line.rfind( '|' );
            known_seen[ line.substr( 2, bar - 2 ) ] += std::strtoull( line.c_str() + bar + 1, nullptr, 10 );
            break; }
        case 'T': {
            char* e = nullptr;
            sim_time_us += std::strtoull( p + 2, &e, 10 );
            steps += std::strtoull( e, nullptr, 10 );
            break; }
        case 'L': truncated = true; truncated_at = std::strtoull( p + 2, nullptr, 10 ); break;
        case 'N': fatal = 2; fprintf( stderr, "SIMULATOR BUG: nondeterministic re-execution, %s\n", p + 2 ); break;
        case 'V': {
            std::vector< std::string > parts;
            std::string rest = line.substr( 2 );
            std::size_t pos = 0;
            for ( int i = 0; i < 4; ++i )
            {
                auto bar = rest.find( '|', pos );
                parts.push_back( rest.substr( pos, bar - pos ) );
                pos = bar == std::string::npos ? rest.size() : bar + 1;
            }
            parts.push_back( pos <= rest.size() ? rest.substr( pos ) : "" );
            found.push_back( Found{ std::strtoull( parts[ 0 ].c_str(), nullptr, 10 ), parts[ 1 ], parts[ 2 ], parts[ 3 ], parts[ 4 ] } );
            break; }
        case 'Y': {
            auto bar = line.rfind( '|' );
            auto& e = survey[ line.substr( 2, bar - 2 ) ];
            if ( e.first++ == 0 ) e.second = std::strtoull( line.c_str() + bar + 1, nullptr, 10 );
            break; }
        case 'D': s.done = true; break;
        default: break;
        }
    };

    unsigned alive = o.workers;
    while ( alive > 0 && !fatal && found.empty() )
    {
        std::vector< pollfd > pfds;
        std::vector< unsigned > who;
        for ( unsigned w = 0; w < o.workers; ++w )
            if ( slots[ w ].fd >= 0 ) { pfds.push_back( pollfd{ slots[ w ].fd, POLLIN, 0 } ); who.push_back( w ); }
        if ( pfds.empty() ) break;
        poll( pfds.data(), pfds.size(), 1000 );
        for ( std::size_t k = 0; k < pfds.size(); ++k )
        {
            if ( !( pfds[ k ].revents & ( POLLIN | POLLHUP | POLLERR ) ) ) continue;
            Slot& s = slots[ who[ k ] ];
            char buf[ 65536 ];
            ssize_t n = read( s.fd, buf, sizeof buf );
            if ( n > 0 )
            {
                s.buf.append( buf, static_cast< std::size_t >( n ) );
                std::size_t nl;
                while ( ( nl = s.buf.find( '\n' ) ) != std::string::npos )
                {
                    std::string line = s.buf.substr( 0, nl );
                    s.buf.erase( 0, nl + 1 );
                    if ( !line.empty() ) handle_line( s, line );
                }
                continue;
            }
            // EOF
            close( s.fd ); s.fd = -1;
            int status = 0;
            waitpid( s.pid, &status, 0 );
            if ( s.done ) { --alive; continue; }
            if ( fatal ) { --alive; continue; }
            // the worker died inside run last_started
            if ( s.has_started )
            {
                ++aborted;
                ++evaluations;
                crashed_runs.push_back( s.last_started );
                const std::uint64_t next = s.last_started + o.workers;
                if ( next < o.runs && now_s() < deadline && crashed_runs.size() < 20 )
                    spawn( who[ k ], next );
                else
                    --alive;
            }
            else
                --alive;
        }
        if ( now_s() > deadline + 120 ) { truncated = true; break; }
    }
    for ( auto& s : slots )
        if ( s.fd >= 0 ) { kill( s.pid, SIGKILL ); close( s.fd ); waitpid( s.pid, nullptr, 0 ); s.fd = -1; }
    if ( !o.hash_list.empty() )
    {
        std::ofstream hl( o.hash_list );
        for ( const auto& h : all_hashes ) hl << h.first << ' ' << h.second << '\n';
    }

    int exit_code = 0;
    std::vector< std::string > violation_lines, info_lines;

    if ( fatal ) exit_code = 2;

    if ( o.survey )
    {
        printf( "survey: %llu runs, %zu runs aborted (indices:", (unsigned long long)evaluations, crashed_runs.size() );
        for ( auto i : crashed_runs ) printf( " %llu", (unsigned long long)i );
        printf( ")\n" );
        for ( const auto& e : survey )
            printf( "  %8llu  %s   (first: --index %llu)\n", (unsigned long long)e.second.first, e.first.c_str(), (unsigned long long)e.second.second );
        return 0;
    }
    // ---- crashed runs: classify in a fresh process
    const bool memsafe = h.memory_safety_property( o.property );
    std::uint64_t confirmed_crashes = 0;
    for ( std::uint64_t idx : crashed_runs )
    {
        if ( exit_code == 2 ) break;
        Plan plan = h.generate( mix( o.seed, idx ), o.property, o.thorough );
        Isolated r = run_isolated( h, plan );
        if ( !r.crashed )
        {
            fprintf( stderr, "SIMULATOR BUG: run %llu aborted a worker but does not abort in isolation\n", (unsigned long long)idx );
            exit_code = 2;
            break;
        }
        ++confirmed_crashes;
        if ( memsafe && violation_lines.empty() )
        {
            unsigned trials = 0;
            Plan minimal = shrink( h, plan, [&]( const Plan& c ) { return run_isolated( h, c ).crashed; }, 400, 60.0, trials );
            std::ostringstream c;
            c << "violation " << o.property << "/abort: the run aborts (sanitizer report or fatal signal)\n";
            c << "original plan: seed " << plan.seed << " with " << plan.ops.size() << " ops; minimised to " << minimal.ops.size() << " ops in " << trials << " re-executions\n";
            std::string path = write_replay( h, o, minimal, c.str() );
            if ( confirm_in_fresh_process( o, path ) )
                violation_lines.push_back( "VIOLATION property=" + o.property + " replay=" + path );
            else { fprintf( stderr, "SIMULATOR BUG: crash replay %s did not reproduce\n", path.c_str() ); exit_code = 2; }
        }
        else if ( !memsafe )
            info_lines.push_back( "INFO: run index " + std::to_string( idx ) + " aborted (sanitizer/signal); not counted against " + o.property );
    }

    // ---- violations found by workers: one report per rule and key (the run with the lowest index), gate 3 (fresh process)
    {
        std::map< std::string, Found > first_of;
        for ( const auto& f : found )
        {
            auto it = first_of.find( f.rule + "|" + f.key );
            if ( it == first_of.end() ) first_of.emplace( f.rule + "|" + f.key, f );
            else if ( f.index < it->second.index ) { unlink( it->second.path.c_str() ); it->second = f; }
            else if ( f.path != it->second.path ) unlink( f.path.c_str() );
        }
        found.clear();
        for ( const auto& e : first_of ) found.push_back( e.second );
    }
    for ( const auto& f : found )
    {
        if ( exit_code == 2 ) break;
        if ( confirm_in_fresh_process( o, f.path ) )
        {
            violation_lines.push_back( "VIOLATION property=" + o.property + " replay=" + f.path );
            info_lines.push_back( "  rule " + f.rule + " [" + f.key + "]: " + f.detail );
        }
        else { fprintf( stderr, "SIMULATOR BUG: replay %s did not reproduce in a fresh process\n", f.path.c_str() ); exit_code = 2; }
    }
    if ( exit_code == 0 && !violation_lines.empty() ) exit_code = 1;

    for ( const auto& k : known_seen )
        for ( const auto& kn : o.known )
            if ( kn.property == o.property && kn.key == k.first )
                printf( "KNOWN-FINDING: property=%s %s (seen in %llu runs)\n", o.property.c_str(), kn.description.c_str(), (unsigned long long)k.second );
    for ( const auto& l : violation_lines ) printf( "%s\n", l.c_str() );
    for ( const auto& l : info_lines ) printf( "%s\n", l.c_str() );

    const double wall = now_s() - t0;
    printf( "%s: %llu runs, %llu non-trivial, %zu distinct traces, %llu aborted, %.1f s, exit %d\n", h.name(), (unsigned long long)evaluations,
            (unsigned long long)nontrivial_runs, distinct.size(), (unsigned long long)aborted, wall, exit_code );

    if ( !o.out.empty() )
    {
        std::ofstream f( o.out );
        auto names = h.op_names();
        auto dump_map = [&]( const std::map< std::string, std::uint64_t >& m ) {
            std::string s = "{";
            bool first = true;
            for ( const auto& e : m ) { s += ( first ? "" : ", " ); s += "\"" + json_escape( e.first ) + "\": " + std::to_string( e.second ); first = false; }
            return s + "}";
        };
        auto dump_list = [&]( const std::vector< std::string >& v ) {
            std::string s = "[";
            for ( std::size_t i = 0; i < v.size(); ++i ) { s += ( i ? ", " : "" ); s += "\"" + json_escape( v[ i ] ) + "\""; }
            return s + "]";
        };
        std::vector< std::string > samples;
        for ( std::size_t i = 0; i < sample_indices.size() && samples.size() < 3; i += std::max< std::size_t >( 1, sample_indices.size() / 3 ) )
        {
            Plan p = h.generate( mix( o.seed, sample_indices[ i ] ), o.property, o.thorough );
            samples.push_back( plan_to_text( p, names.empty() ? nullptr : &names ) );
        }
        f << "{\n";
        f << "  \"harness\": \"" << h.name() << "\",\n";
        f << "  \"property_id\": \"" << o.property << "\",\n";
        f << "  \"tier\": \"" << ( o.thorough ? "thorough" : "quick" ) << "\",\n";
        f << "  \"seed\": " << o.seed << ",\n";
        f << "  \"evaluations\": " << evaluations << ",\n";
        f << "  \"nontrivial_runs\": " << nontrivial_runs << ",\n";
        f << "  \"distinct_nontrivial\": " << distinct.size() << ",\n";
        f << "  \"rule\": \"" << json_escape( h.nontrivial_rule( o.property ) ) << "\",\n";
        f << "  \"samples\": " << dump_list( samples ) << ",\n";
        f << "  \"runs_planned\": " << o.runs << ",\n";
        f << "  \"truncated_by_wall_cap\": " << ( truncated ? "true" : "false" ) << ",\n";
        f << "  \"truncated_at\": " << truncated_at << ",\n";
        f << "  \"wall_s\": " << wall << ",\n";
        f << "  \"runs_per_hour\": " << static_cast< std::uint64_t >( wall > 0 ? evaluations * 3600.0 / wall : 0 ) << ",\n";
        f << "  \"sim_time_s\": " << sim_time_us / 1e6 << ",\n";
        f << "  \"steps\": " << steps << ",\n";
        f << "  \"faults_fired\": " << dump_map( faults ) << ",\n";
        f << "  \"probes\": " << dump_map( probes ) << ",\n";
        f << "  \"known_findings_seen\": " << dump_map( known_seen ) << ",\n";
        f << "  \"cross_property_hits\": " << dump_map( cross ) << ",\n";
        f << "  \"aborted_runs\": " << aborted << ",\n";
        f << "  \"workers\": " << o.workers << ",\n";
        f << "  \"components_real\": " << dump_list( h.real_components() ) << ",\n";
        f << "  \"components_stub\": " << dump_list( h.stub_components() ) << ",\n";
        f << "  \"violations\": " << violation_lines.size() << ",\n";
        f << "  \"exit_code\": " << exit_code << "\n";
        f << "}\n";
    }
    return exit_code;
}

}
