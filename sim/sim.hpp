// Deterministic simulation kernel for the Bluetoe verification harnesses.
//
// One integer (the run seed) decides a *plan* (operations with their attached
// faults and all knobs).  Executing a plan is a pure function of the plan and
// the code under test: the executor never draws random numbers and never reads
// a real clock.  The plan in text form is the replay file.
#ifndef VERIF_SIM_HPP
#define VERIF_SIM_HPP

#include <cstdint>
#include <cstdarg>
#include <cstdio>
#include <map>
#include <string>
#include <vector>
#include <functional>

namespace sim {

// ---------------------------------------------------------------- random
struct Rng {
    std::uint64_t s;
    explicit Rng( std::uint64_t seed ) : s( seed ) {}

    std::uint64_t next()
    {
        std::uint64_t z = ( s += 0x9E3779B97F4A7C15ull );
        z = ( z ^ ( z >> 30 ) ) * 0xBF58476D1CE4E5B9ull;
        z = ( z ^ ( z >> 27 ) ) * 0x94D049BB133111EBull;
        return z ^ ( z >> 31 );
    }
    // uniform in [0, n)
    std::uint64_t below( std::uint64_t n ) { return n ? next() % n : 0; }
    // uniform in [lo, hi]
    std::int64_t range( std::int64_t lo, std::int64_t hi )
    {
        return hi <= lo ? lo : lo + static_cast< std::int64_t >( below( static_cast< std::uint64_t >( hi - lo ) + 1 ) );
    }
    bool chance( unsigned percent ) { return below( 100 ) < percent; }
    bool permille( unsigned pm ) { return below( 1000 ) < pm; }
    template < class T > const T& pick( const std::vector< T >& v ) { return v[ below( v.size() ) ]; }
    std::uint8_t byte() { return static_cast< std::uint8_t >( next() ); }
};

inline std::uint64_t mix( std::uint64_t a, std::uint64_t b )
{
    Rng r( a * 0x9E3779B97F4A7C15ull + b + 0x1234567 );
    r.next();
    return r.next();
}

// ---------------------------------------------------------------- plan
struct Op {
    int                         kind = 0;
    std::vector< std::int64_t > a;        // numeric arguments (interpreted modulo what exists)
    std::vector< std::uint8_t > bytes;    // payload

    Op() {}
    Op( int k, std::initializer_list< std::int64_t > args ) : kind( k ), a( args ) {}
    Op( int k, std::initializer_list< std::int64_t > args, std::vector< std::uint8_t > b ) : kind( k ), a( args ), bytes( std::move( b ) ) {}

    std::int64_t arg( std::size_t i, std::int64_t def = 0 ) const { return i < a.size() ? a[ i ] : def; }
    bool operator==( const Op& o ) const { return kind == o.kind && a == o.a && bytes == o.bytes; }
};

struct Plan {
    std::string                             harness;
    std::string                             property;
    std::uint64_t                           seed = 0;
    int                                     config = 0;
    std::map< std::string, std::int64_t >   knobs;
    std::vector< Op >                       ops;

    std::int64_t knob( const std::string& name, std::int64_t def = 0 ) const
    {
        auto p = knobs.find( name );
        return p == knobs.end() ? def : p->second;
    }
};

std::string plan_to_text( const Plan&, const std::vector< std::string >* op_names = nullptr );
bool        plan_from_text( const std::string&, Plan& );

// ---------------------------------------------------------------- result
struct Violation {
    std::string property;   // Cxx
    std::string rule;       // short rule id, stable: shrinking keeps (property, rule)
    std::string key;        // structural signature used to match known findings
    std::string detail;     // human readable
    long        op_index = -1;
};

struct Result {
    std::uint64_t                           hash = 1469598103934665603ull;
    std::vector< Violation >                violations;
    std::map< std::string, std::uint64_t >  faults;     // fault kinds that actually fired
    std::map< std::string, std::uint64_t >  probes;     // rare conditions reached
    bool                                    nontrivial = false;
    std::uint64_t                           sim_time_us = 0;
    std::uint64_t                           steps = 0;
    bool                                    verbose = false;
    std::vector< std::string >              log;

    void note( const char* fmt, ... ) __attribute__(( format( printf, 2, 3 ) ));
    void note_bytes( const char* tag, const std::uint8_t* p, std::size_t n );
    void violate( const std::string& property, const std::string& rule, const std::string& key, long op_index, const char* fmt, ... )
        __attribute__(( format( printf, 6, 7 ) ));
    void fault( const char* name, std::uint64_t n = 1 ) { faults[ name ] += n; }
    void probe( const char* name, std::uint64_t n = 1 ) { probes[ name ] += n; }
};

std::string hex( const std::uint8_t* p, std::size_t n );
inline std::string hex( const std::vector< std::uint8_t >& v ) { return hex( v.data(), v.size() ); }

// ---------------------------------------------------------------- harness
struct Harness {
    virtual ~Harness() {}
    virtual const char* name() const = 0;
    // properties this harness has oracles for
    virtual std::vector< std::string > properties() const = 0;
    // rule describing when a run counts as non-trivial for the given property
    virtual std::string nontrivial_rule( const std::string& property ) const = 0;
    virtual std::vector< std::string > real_components() const = 0;
    virtual std::vector< std::string > stub_components() const = 0;
    // is a sanitizer abort a violation of this property?  (only properties that state memory safety)
    virtual bool memory_safety_property( const std::string& ) const { return false; }
    // default number of runs
    virtual std::uint64_t default_runs( const std::string& property, bool thorough ) const = 0;
    virtual std::vector< std::string > op_names() const { return {}; }

    // plan generation: a pure function of (seed, property, thorough)
    virtual Plan generate( std::uint64_t seed, const std::string& property, bool thorough ) const = 0;
    // execution: a pure function of the plan
    virtual void execute( const Plan&, Result& ) const = 0;
    // candidates for a simpler version of op (tried in order while shrinking)
    virtual std::vector< Op > simplify( const Plan&, std::size_t /*op index*/ ) const { return {}; }
};

// main() of every harness binary
int sim_main( int argc, char** argv, const Harness& );

}

#endif
