#!/usr/bin/env python3
"""Print the prompt given to an independent sub-agent that is asked to seed a
property-breaking change (used only while developing /verif; the agent sees the
property text and its own worktree, nothing from /verif)."""
import json, sys
pid, wt = sys.argv[1], sys.argv[2]
for l in open('/verif/properties.jsonl'):
    p = json.loads(l)
    if p['id'] == pid:
        break
else:
    sys.exit('no such property')
print(f"""You are helping to evaluate a verification effort for the open-source C++ library Bluetoe (header-only BLE GATT server, ATT handler, link layer, security manager). You have your own scratch git worktree of the library at {wt} (work ONLY there; never touch /repo or /verif, and do not read anything under /verif).

Here is a semantic property the library is supposed to satisfy:

  Title: {p['title']}
  Statement: {p['statement']}
  Quantified over: {p['quantifier']['text']}
  Code it is anchored in: {', '.join(p['anchors']['files'])}

Your task: produce ONE realistic change (a plausible bug a maintainer could introduce: wrong condition, off-by-one, missing guard, forgotten reset, swapped order, stale state, two cooperating sites that each look fine alone ...) to the library sources under {wt}/bluetoe that BREAKS this property, while
  (a) everything still compiles, and
  (b) the existing unit test suite still passes completely (the 70 tests that pass on the unchanged tree must still pass), and
  (c) the breakage needs something specific to manifest: a particular interleaving, a fault (lost packet, disconnect, ...) at a particular point, a multi-step sequence of operations, an unusual input or configuration - NOT something ordinary use would expose at once.
Do not change tests, build files or anything outside {wt}/bluetoe for the mutation itself. Keep the change small (a few lines).

How to build and test in the worktree (offline sandbox, no network):
  cd {wt} && cmake -G Ninja -B _build -DBLUETOE_BUILD_UNIT_TESTS=ON -DCMAKE_BUILD_TYPE=RelWithDebInfo >/dev/null
  cmake --build _build -j6 -- -k 0      # 6 of the test targets (service_tests, characteristic_value_tests, advertising_tests, gap_service_tests, attribute_handle_tests, battery_tests) do NOT compile even on the unchanged tree; that is expected, ignore them. Use at most -j6: other jobs share the machine. A full build takes several minutes; build only the test targets you need while iterating (cmake --build _build --target <name>), and the whole suite once at the end.
  ctest --test-dir _build -j4 --timeout 900   # 70 tests must pass (the 6 above show as "Not Run")
Always wrap runs of your own programs in `timeout 120`.

Also write a demonstration: a small standalone C++ program (or Boost.Test file; Boost headers are installed, the existing tests under {wt}/tests show how servers, the test radio `test::radio`, and helpers are used) at {wt}/demo/demo.cpp plus {wt}/demo/build.sh (a script that compiles it against the worktree's headers with g++ -std=c++17 and produces {wt}/demo/demo) such that ./demo exits non-zero (showing the property violation) WITH your change and exits 0 WITHOUT it (save `git diff -- bluetoe > patch.diff`, then `git apply -R patch.diff` / `git apply patch.diff` to test both ways; do NOT use `git stash`: the stash is shared with other worktrees of the same repository). Verify both directions yourself.

Deliverables (all inside {wt}):
  - {wt}/patch.diff  : `git diff -- bluetoe` of the mutation only (not the demo)
  - {wt}/demo/demo.cpp and {wt}/demo/build.sh
  - {wt}/meta.json   : {{"property": "{pid}", "summary": "...what was changed...", "needs": "...what is required for the breakage to manifest...", "ran": "...commands you ran and their outcome..."}}
Leave the worktree with the mutation APPLIED. Final answer: a short report (what you changed, why it breaks the property, what it needs to manifest, confirmation that the 70 tests pass with it and that the demo fails with / passes without it). If after serious effort you cannot find a change satisfying (a)-(c), say so plainly instead of delivering a change that fails the tests.""")
