#!/bin/bash
# Confirms a seeded change produced by a sub-agent in its own worktree /tmp/mut_<id>[suffix]:
# patch matches the worktree, everything builds, the 70 baseline tests pass, demo fails with / passes without.
id=$1; d=${2:-/tmp/mut_$id}
cd $d || exit 2
echo "== $id in $d"
git diff -- bluetoe | diff -q - patch.diff >/dev/null && echo "patch.diff matches worktree" || echo "PATCH MISMATCH"
cmake --build _build -j${J:-8} -- -k 0 2>&1 | tail -1
ctest --test-dir _build -j4 --timeout 900 2>&1 | grep -E "tests passed|Failed|Timeout" | head -5
( cd demo && bash build.sh >/dev/null 2>&1; timeout 300 ./demo >/dev/null 2>&1; echo "demo WITH mutation: exit $?" )
git apply -R patch.diff
( cd demo && bash build.sh >/dev/null 2>&1; timeout 300 ./demo >/dev/null 2>&1; echo "demo WITHOUT mutation: exit $?" )
git apply patch.diff
git diff -- bluetoe | diff -q - patch.diff >/dev/null && echo "restored" || echo "RESTORE MISMATCH"
