#!/bin/bash
# Determinism self test: every harness runs the same seeds twice, with 3 and with 14 workers; the (run index, trace hash) lists must be identical.
# usage: tools/selftest_determinism.sh [runs per harness, default 2000]
cd /verif && ./check --build >/dev/null || exit 2
n=${1:-2000}; rc=0; tmp=$(mktemp -d)
for hp in gatt_sim:C06 nq_sim:C12 irq_sim:C13 irq_sim:C30 pdu_sim:C15 ring_sim:C18 sdu_sim:C19 wl_sim:C26 stack_sim:C21 stack_sim:C24 stack_sim:C28 sm_sim:C32 sm_sim:C38 l2cap_sim:C31 csc_sim:C40 bl_sim:C39 nrf_sim:C25 pdu_sim:C23 lat_sim:C23 stack_sim:C27; do
  h=${hp%%:*}; p=${hp##*:}
  build/$h --property $p --tier quick --seed 7 --runs $n --workers 3  --survey --hash-list $tmp/a >/dev/null 2>&1
  build/$h --property $p --tier quick --seed 7 --runs $n --workers 14 --survey --hash-list $tmp/b >/dev/null 2>&1
  if [ -s $tmp/a ] && cmp -s $tmp/a $tmp/b; then echo "$h $p: $(wc -l < $tmp/a) runs identical"; else echo "$h $p: DIFFERENT ($(diff $tmp/a $tmp/b | grep -c '^<') lines)"; rc=1; fi
done
rm -rf $tmp; exit $rc
