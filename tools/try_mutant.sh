#!/bin/bash
# Applies a seeded change to /repo, runs the quick check(s), and undoes the change straight afterwards.
# usage: tools/try_mutant.sh <patch.diff> <property-id> [more property ids...]
patch=$1; shift
if [ -n "$(git -C /repo status --porcelain --untracked-files=no)" ]; then echo "/repo has uncommitted changes"; exit 2; fi
git -C /repo apply "$patch" || { echo "patch does not apply"; exit 2; }
for id in "$@"; do
  out=$(cd /verif && ./check $id ${TIER:-quick} 2>&1); rc=$?
  echo "$out" | grep -E "VIOLATION|KNOWN-FINDING|rule |BUILD FAILED|SIMULATOR BUG" | head -6
  echo "== $id exit $rc  ($(echo "$out" | grep -E "runs, " | tr '\n' ' '))"
done
git -C /repo checkout -- .
