#!/bin/bash
# Applies a seeded change to /repo, runs the quick check(s), and undoes the change straight afterwards.
# usage: tools/try_mutant.sh <patch.diff> <property-id> [more property ids...]
# (with uncommitted work in /repo the change is undone with `git apply -R` instead of `git checkout`)
patch=$1; shift
dirty=0
if [ -n "$(git -C /repo status --porcelain --untracked-files=no)" ]; then dirty=1; fi
git -C /repo apply "$patch" || { echo "patch does not apply"; exit 2; }
for id in "$@"; do
  # evidence written while a change is applied is not evidence: keep the file of the unchanged tree
  keep=$(mktemp); cp /verif/evidence/$id.json $keep 2>/dev/null
  out=$(cd /verif && ./check $id ${TIER:-quick} 2>&1); rc=$?
  [ -s $keep ] && cp $keep /verif/evidence/$id.json; rm -f $keep
  echo "$out" | grep -E "VIOLATION|rule |BUILD FAILED|SIMULATOR BUG" | head -4 | cut -c1-300
  echo "== $id exit $rc  ($(echo "$out" | grep -E "runs, " | tr '\n' ' '))"
done
if [ $dirty = 1 ]; then git -C /repo apply -R "$patch"; else git -C /repo checkout -- .; fi
