#!/usr/bin/env python3
"""Regenerates MANIFEST.json from tools/registry.py."""
import json, os, subprocess, sys
ROOT = os.path.dirname(os.path.dirname(os.path.abspath(__file__)))
sys.path.insert(0, os.path.join(ROOT, 'tools'))
from registry import CHECKS, NOT_APPLICABLE, NOT_YET

props = [json.loads(l)['id'] for l in open(os.path.join(ROOT, 'properties.jsonl'))]
hooks = []
try:
    hooks = [l.strip() for l in open(os.path.join(ROOT, 'hooks_commits.txt')) if l.strip()]
except FileNotFoundError:
    pass
engines = {}
for pid, c in CHECKS.items():
    for b in c['harnesses']:
        e = engines.setdefault(b['harness'], {'name': b['harness'], 'path': 'harness/', 'serves_properties': [], 'kind_free_text':
                                            'deterministic simulation harness (seeded plan generator, executor, reference-model oracles) on the kernel in sim/'})
        e['serves_properties'].append(pid)
for e in engines.values():
    e['serves_properties'].sort()
m = {
    'version': 1,
    'setup_cmd': './check --build',
    'hooks': {
        'guard': 'BLUETOE_VERIF',
        'enable': 'harnesses are compiled with -DBLUETOE_VERIF (see Makefile); the define only activates the guarded seams listed in source_commits',
        'baseline_off_cmd': 'cmake -G Ninja -B /repo/_build -S /repo -DBLUETOE_BUILD_UNIT_TESTS=ON -DCMAKE_BUILD_TYPE=RelWithDebInfo >/dev/null && (cmake --build /repo/_build -j16 -- -k 0 >/dev/null 2>&1; ctest --test-dir /repo/_build -j8 --timeout 900)',
        'source_commits': hooks,
        'add_only': True,
    },
    'engines': sorted(engines.values(), key=lambda e: e['name']),
    'checks': [],
    'not_applicable': [],
    'notes': 'All claims are at level exploration: seeded deterministic simulation with fault injection; every violation is minimised and must replay in a fresh process before it is reported. See DESIGN.md.',
}
for pid in props:
    if pid in CHECKS:
        c = CHECKS[pid]
        m['checks'].append({
            'property_id': pid,
            'quick_cmd': './check %s quick' % pid,
            'thorough_cmd': './check %s thorough' % pid,
            'evidence_file': 'evidence/%s.json' % pid,
            'replay_cmd_template': './check %s --replay {path}' % pid,
            'engine': '+'.join(b['harness'] for b in c['harnesses']),
            'level_claimed': {'category': 'exploration', 'text': c['level_text'], 'design_ref': c['design_ref']},
            'level_note': c['level_note'],
            'technique': c['technique'],
        })
    elif pid in NOT_APPLICABLE:
        m['not_applicable'].append({'property_id': pid, 'reason': NOT_APPLICABLE[pid]})
    else:
        m['not_applicable'].append({'property_id': pid, 'reason': NOT_YET.get(pid, 'not claimed yet: the simulation harness for this property (see DESIGN.md) is not built at this commit')})
json.dump(m, open(os.path.join(ROOT, 'MANIFEST.json'), 'w'), indent=1)
print('claimed %d, not applicable/not yet %d' % (len(m['checks']), len(m['not_applicable'])))
