#!/bin/bash
# usage: tools/run_all.sh [quick|thorough] [ids...]  -> one line per check: id exit seconds last-line
tier=${1:-quick}; shift
ids="$@"
[ -z "$ids" ] && ids=$(python3 -c "import sys; sys.path.insert(0,'tools'); from registry import CHECKS; print(' '.join(sorted(CHECKS)))")
for id in $ids; do
  t0=$(date +%s.%N)
  out=$(./check $id $tier 2>&1); rc=$?
  t1=$(date +%s.%N)
  printf "%s rc=%d %.1fs | %s\n" $id $rc $(echo "$t1-$t0"|bc) "$(echo "$out" | grep -E 'VIOLATION|KNOWN-FINDING' | cut -c1-150 | tr '\n' ';' | cut -c1-400) $(echo "$out"|tail -1|cut -c1-160)"
done
