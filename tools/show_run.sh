#!/bin/bash
# tools/show_run.sh <binary> <property> <index> [grep pattern]: prints the trace and violations of one generated run
b=$1; p=$2; i=$3
./build/$b --property $p --print-plan --index $i > /tmp/show_$$.replay
./build/$b --replay /tmp/show_$$.replay --property $p --verbose 2>&1 | cut -c1-${W:-260}
rm -f /tmp/show_$$.replay
