#!/usr/bin/env python3
"""Keeps a confirmed seeded change: tools/keep_mutant.py <name> <worktree> <property> '<what I ran / result>'"""
import json, os, shutil, sys
name, wt, prop, ran = sys.argv[1:5]
dst = os.path.join('/verif/seeded', name)
os.makedirs(os.path.join(dst, 'demo'), exist_ok=True)
shutil.copy(os.path.join(wt, 'patch.diff'), os.path.join(dst, 'patch.diff'))
for f in ('demo.cpp', 'build.sh'):
    if os.path.exists(os.path.join(wt, 'demo', f)):
        shutil.copy(os.path.join(wt, 'demo', f), os.path.join(dst, 'demo', f))
try:
    meta = json.load(open(os.path.join(wt, 'meta.json')))
except Exception:
    meta = {}
out = {'property': prop, 'summary': meta.get('summary', ''), 'needs': meta.get('needs', ''), 'author_ran': meta.get('ran', ''), 'confirmed': ran}
json.dump(out, open(os.path.join(dst, 'meta.json'), 'w'), indent=1)
print('kept', dst)
