"""Which harness decides which property (single source of truth for ./check and MANIFEST.json)."""

CHECKS = {
    'C26': {
        'harnesses': [{'harness': 'wl_sim', 'binary': 'wl_sim'}],
        'technique': 'deterministic simulation: seeded op/fault sequences against a bounded-set reference model',
        'design_ref': 'DESIGN.md 4.3, 6 (C26)',
        'level_text': 'Seeded search over operation sequences (application add/remove/clear/filter switches interleaved with link-layer filter queries) '
                      'on the software and the radio-backed white list, compared after every step with a set model over the whole address universe. '
                      'Sampling, not proof.',
        'level_note': 'trusted: the set model in harness/wl_sim.cpp; the radio of the radio-backed variant is a stub (no real radio has a hardware white list)',
        'assumptions': ['device_address equality is (6 bytes, random flag)', 'radio-backed variant: radio capacity equals N'],
        'explanation': 'Every op is followed by a full comparison of membership, free size and both filter predicates for all 12 addresses.',
    },
}

CHECKS['C12'] = {
    'harnesses': [{'harness': 'nq_sim', 'binary': 'nq_sim'}],
    'technique': 'deterministic simulation: seeded interleaving of four op streams against a set/priority/round-robin reference model',
    'design_ref': 'DESIGN.md 4.3, 6 (C12)',
    'level_text': 'Seeded search over interleavings of application, link-layer, client and disconnect op streams on notification_queue for 16 priority '
                  'partitions; after every op the return value and the dequeued entry are compared with a model (pending set, outstanding indication, '
                  'priority levels, per-level fairness), and a fault-free drain phase checks bounded progress. Sampling, not proof.',
    'level_note': 'trusted: the model in harness/nq_sim.cpp; fairness is checked between characteristics of a level (a characteristic is not served twice while another one stays eligible and unserved)',
    'assumptions': ['ops are atomic here (interleaving inside an op is C13)', 'first tuple element is the highest priority'],
    'explanation': 'Partitions include single-entry levels, which use a separate implementation.',
}

CHECKS['C18'] = {
    'harnesses': [{'harness': 'ring_sim', 'binary': 'ring_sim'}],
    'technique': 'deterministic simulation: seeded producer/consumer op sequences against a deque + shadow-memory model, under ASan',
    'design_ref': 'DESIGN.md 4.3, 6 (C18)',
    'level_text': 'Seeded search over producer (alloc/fill/commit) and consumer (peek/pop) op sequences on pdu_ring_buffer for 14 (size, layout) configurations; '
                  'after every op: FIFO order, byte-exact content of all live PDUs, bounds, non-overlap, idempotent allocation, and allocation failure only when the '
                  "ring's placement rules leave no room. Storage is an exactly sized heap block, so ASan reports any access outside it. Sampling, not proof.",
    'level_note': "trusted: the placement-rule model in harness/ring_sim.cpp (one spare byte before the oldest PDU, wrap only to the start, pointers of an empty ring stay in place "
                  "as the repository's own ring_buffer_tests document); payloads 1..251",
    'assumptions': ['ops are atomic (Radio::lock_guard in production)', 'PDU payload length 1..251 (largest LL payload); alloc size >= memory size of the PDU committed into it'],
    'explanation': 'A sanitizer abort counts as a violation for this property.',
}

CHECKS['C30'] = {
    'harnesses': [{'harness': 'irq_sim', 'binary': 'irq_sim'}],
    'technique': 'deterministic simulation: seeded schedules at atomic-access granularity (interrupt and thread families), linearizability against a bounded FIFO',
    'design_ref': 'DESIGN.md 4.4, 6 (C30)',
    'level_text': 'Seeded search over interleavings of try_push and try_pop of details::ring<1..4> at the granularity of its atomic loads/stores and data accesses '
                  '(guarded seam in ring.hpp): interrupt-style schedules in both directions and free two-thread schedules; every history (unique values, <=6+6 ops, then '
                  'a sequential drain) is checked by accounting (pushed == popped, in order) and by a linearizability search against a bounded FIFO. Sampling, not proof.',
    'level_note': 'trusted: the baton scheduler and the linearizability checker in harness/irq_sim.cpp; sequential consistency only - weak-memory reorderings of the non-atomic '
                  'data_[] accesses relative to the atomic indices cannot be shown by a serialising scheduler',
    'assumptions': ['one producer and one consumer', 'sequentially consistent memory'],
    'explanation': 'Real threads are parked and released one at a time (free family); interrupts are inline calls at yield points (ISR family).',
}
CHECKS['C13'] = {
    'harnesses': [{'harness': 'irq_sim', 'binary': 'irq_sim'}],
    'technique': 'deterministic simulation: seeded schedules at byte-access granularity (interrupt and thread families), accounting + linearizability against the pending-set model',
    'design_ref': 'DESIGN.md 4.4, 6 (C13)',
    'level_text': 'Seeded search over interleavings of producer ops (queue_notification / queue_indication) with consumer ops (dequeue, confirm) on notification_queue, with a yield '
                  'point between the load and the store of every access to a queue byte (guarded seam in notification_queue.hpp); after a sequential drain every accepted request '
                  'must have been dequeued exactly once and the history must be linearizable. The known lost-update race on a shared queue byte is reported as KNOWN-FINDING; any other '
                  'loss, duplication or non-linearizable history is a VIOLATION. Sampling, not proof.',
    'level_note': 'trusted: scheduler, accounting and linearizability checker in harness/irq_sim.cpp; sequential consistency only; the queue is driven directly (server::notify and the link layer add no synchronisation of their own)',
    'assumptions': ['one producer context and one consumer context', 'a byte read-modify-write is a load followed by a store (LDRB/ORR/STRB)'],
    'explanation': 'Known findings are matched by structural key (symptom + whether producer and consumer both modified the queue byte of the affected characteristic).',
}

_PDU = {'harness': 'pdu_sim', 'binary': 'pdu_sim'}
CHECKS['C15'] = {
    'harnesses': [_PDU],
    'technique': 'deterministic simulation: seeded traffic and air-fault sequences between the real PDU buffer and a reference central ARQ',
    'design_ref': 'DESIGN.md 4.3, 6 (C15)',
    'level_text': 'Seeded search over traffic (both directions, all LLIDs, empty PDUs, size changes, lagging upper layer, stop, reset) and air faults attached to each packet exchange '
                  '(loss / CRC error in either direction, MIC error) on ll_data_pdu_buffer for 10 buffer/layout configurations, each once behind a re-stated radio decision table and once behind the real nRF52 radio front end (nrf52.hpp: schedule_connection_event, radio_interrupt_handler, run) on a simulated Hardware. Oracles: deliveries to the upper layer equal the '
                  'central\'s sent sequence, in order, once; nothing is acknowledged that was not accepted (incl. full buffer); the central receives exactly the committed PDUs in order; '
                  'a transmit PDU is released only after the central has it; after faults stop everything is delivered within a bounded number of exchanges. Sampling, not proof.',
    'level_note': 'trusted: the reference central, the re-statement of the nRF52 receive decision table (configurations 0..9) and the simulated Hardware below the real front end (configurations 10..19) in harness/pdu_sim.cpp, harness/nrf_front.hpp; the central honours max_rx_size',
    'assumptions': ['the central never sends a PDU larger than the current max_rx_size', 'one packet pair per exchange (the nRF52 binding clears MD)'],
    'explanation': 'Known finding: an empty ring whose pointers sit in the middle cannot allocate a maximum-size PDU when the ring is smaller than two of them; the link then stalls (see known_findings.json).',
}
CHECKS['C16'] = {
    'harnesses': [_PDU],
    'technique': 'deterministic simulation: seeded loss/retransmission patterns, packet-counter calls compared with the reference central nonce sequence',
    'design_ref': 'DESIGN.md 4.3, 6 (C16)',
    'level_text': 'Same simulated world as C15. The radio stub, or the simulated Hardware below the real nRF52 front end with encryption support, records increment_receive/transmit_packet_counter calls; the MIC verdict of every non-empty PDU is computed from the two '
                  'sides\' counters as CCM would. Oracles: the receive counter advances by exactly one for a new non-empty PDU and not otherwise; every new non-empty PDU accepted by the '
                  'central was sent with the counter value the central expects; final counters equal the number of non-empty PDUs moved. Sampling, not proof.',
    'level_note': 'trusted: reference central; counter::increment in nrf52.cpp (the 39-bit register arithmetic) is not executed',
    'assumptions': ['nonce = direction bit + packet counter; empty PDUs carry no MIC'],
    'explanation': '',
}
CHECKS['C17'] = {
    'harnesses': [_PDU],
    'technique': 'deterministic simulation: MIC failures injected at seeded positions of a PDU stream with loss and retransmission',
    'design_ref': 'DESIGN.md 4.3, 6 (C17)',
    'level_text': 'Same simulated world as C15 with MIC faults biased up. A PDU that reached the buffer only through acknowledge() while its sequence number was new must never be '
                  'acknowledged (NESN advanced) - the central must still hold it; retransmissions of already delivered PDUs, which fail the MIC because the counter moved on, may be. Sampling, not proof.',
    'level_note': 'trusted: reference central; the decision "valid CRC and invalid MIC -> acknowledge()" is re-stated from nrf52.hpp in configurations 0..9 and executed from it in configurations 10..19; the payload of a PDU that fails its MIC is garbled',
    'assumptions': ['MIC verdict of a retransmission follows from the packet counters'],
    'explanation': '',
}

CHECKS['C19'] = {
    'harnesses': [{'harness': 'sdu_sim', 'binary': 'sdu_sim'}],
    'technique': 'deterministic simulation: seeded well-formed, malformed and interleaved fragment streams from a simulated central against a reassembly/fragmentation reference model, under ASan',
    'design_ref': 'DESIGN.md 4.3, 6 (C19)',
    'level_text': 'Seeded search over fragment streams a (possibly malicious) central can send (start/continuation/control PDUs of any length and any announced L2CAP length, repeated and missing starts, '
                  'over-long continuations) interleaved with outgoing SDUs of 0..MTU bytes, control PDUs, a busy transmit ring and maximum-PDU-size changes, for 9 (buffer, layout, MTU) configurations. '
                  'Oracles: the reassembly state never reaches or announces a position behind its buffer and polling never changes the idle transmit buffer (intra-object overflow ASan cannot see), '
                  'every delivered frame is one start fragment followed by its continuations with the announced length, outgoing fragments are one start plus continuations within the maximum size that '
                  'concatenate to the SDU, and no accepted SDU is lost. Sampling, not proof.',
    'level_note': 'trusted: the matching model in harness/sdu_sim.cpp; private members of ll_l2cap_sdu_buffer are read (not written) through an access-specifier macro in the harness translation unit; perfect air (loss is C15)',
    'assumptions': ['maximum PDU sizes are kept at or below half of the ring (ring stall is a C15 known finding)', 'the MTU-23 specialisation passes PDUs through unchanged (no reassembly state)'],
    'explanation': 'A sanitizer abort counts as a violation for this property.',
}

_GATT = {'harness': 'gatt_sim', 'binary': 'gatt_sim'}
_GATT_NOTE = ('trusted: the reference model in harness/gatt_world.hpp and the handle/permission rules re-stated in gen/gen_configs.py (declaration and model table come from one abstract '
              'description); 16 generated server configurations per build; the link layer and L2CAP are stubs')
_GATT_ASSUME = ['one ATT request at a time per connection', 'error codes are only checked where a property names them (security 0x05/0x0f, invalid offset, attribute not found, prepare queue full)']
def _gatt(text, technique, expl=''):
    return {'harnesses': [_GATT], 'technique': technique, 'design_ref': 'DESIGN.md 4.1, 5, 6', 'level_text': text + ' Sampling, not proof.', 'level_note': _GATT_NOTE, 'assumptions': _GATT_ASSUME, 'explanation': expl}
CHECKS['C01'] = _gatt('Seeded search over valid, boundary and hostile ATT PDUs (every opcode, lengths 1..MTU+3) from 1-3 clients after arbitrary histories, on generated server declarations; input PDUs and output buffers are '
                      'exactly sized heap blocks under ASan; every response is checked for length <= negotiated MTU / buffer, matching response opcode or Error Response naming the request, and silence for non-requests.',
                      'deterministic simulation: hostile multi-client ATT traffic with disconnect/security faults against framing rules, under ASan', 'A sanitizer abort counts as a violation for this property.')
CHECKS['C02'] = _gatt('Seeded search over (start, end, type, MTU) for Find Information, Read By Type and Read By Group Type, as single requests and as complete iterated discovery procedures, on generated declarations with fixed '
                      'handles and gaps: every response must be a gap-free ascending run of the model\'s in-range matching attributes (unreadable ones may be left out by Read By Type), Attribute Not Found only when nothing matches, and the '
                      'iterated procedure must enumerate the match set exactly once.', 'deterministic simulation: discovery histories compared with an independent handle table')
CHECKS['C03'] = _gatt('Seeded search over Read By Group Type and Find By Type Value for «Primary Service» (all ranges, present/absent/secondary UUIDs, iterated to completion) on declarations mixing primary and secondary services: '
                      'reported (start, end, uuid) triples must equal the model\'s primary services starting in range.', 'deterministic simulation: primary service discovery histories against the model service list')
CHECKS['C05'] = _gatt('Seeded search over every read path (Read, Blob, By Type, Multiple, notification, indication) and write path (Write, Command, Prepare/Execute, CCCD) with link security transitions injected between any two '
                      'steps, on declarations with all placements of the encryption options: a protected value or CCCD never appears in a PDU and never changes while the connection is unencrypted; rejections carry 0x05 without key, 0x0f with.',
                      'deterministic simulation: security-state fault injection against a permission/encryption model')
CHECKS['C06'] = _gatt('Seeded search over reads and writes with arbitrary offsets/lengths on bound, constant, fixed and handler based values (with injected handler errors): byte exact value store model compared after every op, '
                      'Invalid Offset past the end, permission options on every access path, declared properties equal what is permitted.', 'deterministic simulation: value store reference model compared after every step')
CHECKS['C07'] = _gatt('Seeded search over interleavings of Prepare/Execute/Write/Read from 2-3 clients with disconnects (same or new connection object) and security changes at any position, queue sizes from one entry up: '
                      'prepares change nothing and call no handler, execute applies the owner\'s entries in order, flag 0 / execute / error / disconnect release the queue, non-owners get Prepare Queue Full, a prepare is accepted '
                      'iff a Write Request would be permitted.', 'deterministic simulation: multi-client write-queue histories with disconnect faults against a queue model')
CHECKS['C08'] = _gatt('Seeded search over sequences of Exchange MTU (valid, <23, wrong length, repeated) mixed with long reads and notifications: model MTU = min(server maximum, last valid client MTU); every response, notification and '
                      'indication fits it and uses it for long values; invalid requests leave it unchanged.', 'deterministic simulation: MTU negotiation histories against a two-variable model')
CHECKS['C09'] = _gatt('Seeded search over CCCD writes (0..0xffff, 1 and 2 bytes, via Write, Command, Prepare/Execute) and reads from 2-3 connections on declarations with 0-11 CCCDs (crossing the 4-per-byte packing): per connection '
                      'map compared after every op on all connections; subscription callback count equals the number of stored-value changes.', 'deterministic simulation: per-connection CCCD map model')
CHECKS['C10'] = _gatt('Seeded search over application requests (by bound value and by UUID), subscription changes, value changes and link polls with varying buffer sizes: each notification/indication carries the value handle and '
                      'current value of a requested characteristic, goes only to a connection subscribed for that kind, and one PDU per burst of identical requests.', 'deterministic simulation: application/link/client interleavings against a pending-request model')
CHECKS['C11'] = _gatt('Same world as C10: between an indication and its confirmation no further indication on that connection; after faults stop and with the client confirming, every deliverable pending indication is emitted within '
                      '2*(pending+1) polls; requests for unsubscribed or unreadable characteristics are excluded from the obligation.', 'deterministic simulation: indication/confirmation interleavings, bounded liveness after faults stop')

_STACK = {'harness': 'stack_sim', 'binary': 'stack_sim'}
_STACK_NOTE = ('trusted: the simulated radio (harness/sim_radio.hpp, the scheduled_radio contract as documented) and the central / scanner / initiator model written from the Core specification '
               '(harness/stack_world.hpp: CSA#1, anchors, transmit windows, control procedures); real code: link_layer<>, advertising, peripheral_latency, channel_map, ll_data_pdu_buffer, '
               'll_l2cap_sdu_buffer, l2cap, signaling channel, GATT server; 14 link layer configurations: 5 option sets (buffers 61..200 bytes, latency options, variable advertising map, white list, no-auto-start, several advertising types) and 2 with link encryption, '
               'each on the simulated radio and on the real nRF52 radio front end (nrf52.hpp over the Hardware stub harness/nrf_bridge.hpp: one PDU pair per event, CRC error = no reception, gap byte layout with encryption); '
               'clock drift within +-500 ppm on both sides, radio set-up margin and disarm refusals as knobs; 2 us (+2 ppm) tolerance on window checks')
_STACK_ASSUME = ['the central obeys the Core specification unless an op says otherwise (raw/hostile PDUs excuse the checks that depend on them)', 'one connection at a time (Bluetoe peripheral)',
                 'radio of the real hardware is replaced by the contract; encryption is off (C28 is not decided here)']
def _stack(text, technique, expl=''):
    return {'harnesses': [_STACK], 'technique': technique, 'design_ref': 'DESIGN.md 4.2, 5, 6', 'level_text': text + ' Sampling, not proof.', 'level_note': _STACK_NOTE, 'assumptions': _STACK_ASSUME, 'explanation': expl}
_ST = 'deterministic simulation of the whole peripheral (discrete-event time, drifting clocks, lossy air, hostile central) against a specification-derived central model: '
CHECKS['C20'] = _stack('Seeded search over connect requests (all hop increments, random channel maps incl. < 2 channels and invalid hops), channel map updates, lost events and latency: every scheduled connection event must be on the '
                       'channel an independent Channel Selection Algorithm #1 gives for the event the peripheral targets; invalid maps/hops must not take effect.', _ST + 'channel of every scheduled event')
CHECKS['C21'] = _stack('Seeded search over connection update, channel map and PHY update indications with instants from the past to far ahead (wrap-around included), delivered late, retransmitted, followed by other PDUs that reuse the '
                       'receive buffer, under latency, lost events and event cancelation: the new parameters must be in force exactly from the instant (channel, anchor/window, PHY), or the connection ends with Instant Passed; '
                       'data received while a procedure is pending must be processed by the instant.', _ST + 'parameters in force at and around every instant')
CHECKS['C22'] = _stack('Seeded search over connect requests with valid and invalid timing, intervals 7.5 ms..4 s, window offsets/sizes, drift of both clocks, bursts of lost events up to the supervision timeout: every receive window '
                       'must contain the reference anchor (plus transmit window where one applies), the connection must not be dropped before the supervision timeout passed without a valid packet, and only valid connect requests connect.',
                       _ST + 'receive windows, supervision timeout, connect decision')
CHECKS['C23'] = _stack('Seeded search over the peripheral_latency option sets with application data, central data, MD bursts, CRC errors, lost events and radio disarm success/refusal: the peripheral never skips more than the latency, '
                       'listens when a configured condition held, and event counter and channel stay in step with the number of elapsed intervals, including events pulled back by pending data. A second harness (pdu_sim, configurations '
                       'with the real nRF52 radio front end) judges what the radio reports about every completed connection event - the listen conditions last_received_not_empty, last_received_had_more_data, '
                       'last_transmitted_not_empty, unacknowledged_data that plan_next_connection_event() acts on - against the PDUs that were exchanged. A third harness (lat_sim) drives peripheral_latency_state directly with every sequence of '
                       'event outcomes, pending instants, timeouts, pending data with a permitting or refusing radio and pinned events (the link layer pins every event planned for an instant, so it cannot produce them all).', _ST + 'attended events vs. listen conditions')
CHECKS['C23']['harnesses'] = [_STACK, _PDU, {'harness': 'lat_sim', 'binary': 'lat_sim'}]
CHECKS['C23']['level_note'] = CHECKS['C23']['level_note'] + '; pdu_sim: the Hardware below nrf52.hpp is a stub (harness/nrf_front.hpp), the link layer above it is the op stream of the harness; lat_sim: link layer and radio are the op stream, the oracle is a set of constraints (distance 1..latency+1, 1 after a listen condition, not behind an instant, pull back into the future and not later than planned, counter / channel index / time in step)'
CHECKS['C24'] = _stack('Seeded search over advertising with fixed and run-time changed channel maps, start/stop/count controls, scan requests, connects and disconnects in between: every advertising event uses each enabled channel '
                       'once in ascending order and no disabled one, events are interval + 0..10 ms apart, nothing is sent while stopped or beyond the count.', _ST + 'advertising PDUs on the air')
CHECKS['C25'] = _stack('Seeded search over scan and connect requests with right/wrong advertiser address, address type, length, initiators inside/outside the white list and filter switches between any two PDUs, for undirected and directed '
                       'advertising: the decision to answer / connect is compared with a model of the addressing and filter rules. A second harness (nrf_sim) runs the real nRF52 radio front end (nrf52.hpp: '
                       'schedule_advertisment, radio_interrupt_handler, is_valid_scan_request) on a simulated Hardware and judges the decision the radio takes within the inter frame space: scan response only to a well formed '
                       'SCAN_REQ for the own address and type that the filter accepts, the filter asked with the address and type of the scanner, every other PDU handed to the link layer unchanged.', _ST + 'scan response / connect decision')
CHECKS['C25']['harnesses'] = [_STACK, {'harness': 'nrf_sim', 'binary': 'nrf_sim'}]
CHECKS['C25']['level_note'] = CHECKS['C25']['level_note'] + '; nrf_sim: the Hardware (registers, timers, radio) is a stub, nrf52.hpp runs as shipped, the link layer above it is a recording stub'
CHECKS['C27'] = _stack('Seeded search over every LL control opcode (known, unknown, wrong length, responses and rejects) from the central, interleaved with peripheral initiated procedures, lost packets and full buffers: one specified '
                       'answer per request (content checked for feature/unknown/version), none for responses and rejects, one LL_VERSION_IND per connection, and an unanswered peripheral procedure ends the connection after 40 s: not earlier, and not missing (runs of thousands of connection events in which the central leaves a request unanswered).',
                       _ST + 'request/response bookkeeping of the central')
CHECKS['C28'] = _stack('Two link layer configurations with link encryption, each on the simulated radio and on the real nRF52 front end with the gap byte PDU layout (legacy security manager, bond data base with two bonds, a characteristic that requires encryption; the radio keeps an encryption flag and key per direction and the '
                       'simulated air decides from flags and keys of both sides whether a PDU can be decoded). Seeded search over encryption start and pause procedures of an honest central (right key, wrong key, unknown EDIV/Rand), single '
                       'LL_START_ENC_RSP / LL_PAUSE_ENC_RSP PDUs out of order in plaintext or encrypted, pipelined LL_ENC_REQs, reads and writes of the protected characteristic, control PDUs with instants, loss, local disconnects and '
                       'reconnects: LL_START_ENC_REQ only for a request with a known key, a reject for unknown ones, the link is reported encrypted (once per completed procedure) and the protected value is served or written only for ATT '
                       'requests that arrived after a procedure in which the peripheral had committed its LL_START_ENC_REQ before the LL_START_ENC_RSP arrived, and not after a pause.', _ST + 'encryption procedure automaton, taint of the protected value',
                       'The security tool box is a stub on the simulated radio and the binding\'s own on the real front end (pairing itself is decided by sm_sim); keys come from the bond data base.')
CHECKS['C29'] = _stack('Seeded search over connect requests, lost first events, updates, remote and local terminations, supervision and procedure timeouts: the recorded application callbacks of every connection must match '
                       'requested, (established | attempt timeout), changed*, closed(reason) exactly once and in order, and nothing may be reported for a connection that was not requested.', _ST + 'callback order grammar')


_SM = {'harness': 'sm_sim', 'binary': 'sm_sim'}
_SM_NOTE = ('trusted: the reference SMP initiator and responder model in harness/sm_sim.cpp (c1, s1, f4, f5, f6, g2 and P-256 written from Core Vol 3 Part H on top of OpenSSL; it agrees with the real tool box on every '
            'completed pairing, otherwise the keys would differ), the stub user / OOB / bond data base objects and the emulated RNG and ECB registers; real code: the three security manager implementations with their '
            'connection data, io_capabilities, oob_authentication, bonding glue, nrf52 security_tool_box.cpp and uECC; 16 compiled configurations (legacy/LESC/combined x IO capabilities x OOB x bonding)')
_SM_ASSUME = ['the link layer resets the connection data on a new connection and sets is_encrypted only after a key was found (as link_layer.hpp does); forced encryption changes are injected as faults',
              'the user answers each yes/no question at most once, possibly after the pairing or the connection it belongs to is gone',
              'error codes of Pairing Failed are not checked (the properties do not name them)']
def _sm(text, technique, expl=''):
    return {'harnesses': [_SM], 'technique': technique, 'design_ref': 'DESIGN.md 4.3, 6', 'level_text': text + ' Sampling, not proof.', 'level_note': _SM_NOTE, 'assumptions': _SM_ASSUME, 'explanation': expl}
_SMT = 'deterministic simulation of the security manager against a reference SMP initiator, a simulated user, link layer and bond data base: '
CHECKS['C32'] = _sm('Seeded search over SMP histories: honest legacy and LESC flows (just works, passkey display/input, OOB, numeric comparison) with dropped, repeated, swapped, malformed, wrong-valued and foreign PDUs, '
                    'user answers before, between and after the DHKey check or after the pairing/connection is gone, polls at arbitrary steps. A responder model decides for every PDU whether it is in order and valid; '
                    'anything else must be answered with Pairing Failed and a following valid Pairing Request must be accepted; the peripheral random is revealed only if the confirm value verifies; a DHKey check is emitted '
                    '(by response or by poll) only after a valid DHKey check of the central was received in this exchange; no pairing PDU is emitted when no step is due.', _SMT + 'protocol-order automaton, reveal-after-verify')
CHECKS['C33'] = _sm('Same world as C32. After every step find_key() is probed with EDIV/Rand (0,0), values of every bond created so far, and unrelated values: a key may only be offered if a pairing completed on this '
                    'connection since the last failure/disconnect (and EDIV=Rand=0) or the bond data base holds that EDIV/Rand for this peer; the offered key must equal the STK/LTK the reference initiator derived, '
                    'respectively the stored bond. Faults: failed, aborted and repeated pairings, late user answers, disconnect/reconnect to the same or another peer with a durable bond data base.', _SMT + 'key offer vs. pairing history and bond data base')
CHECKS['C34'] = _sm('Same world as C32 with bonding configurations biased up. Encryption Information and Central Identification may only leave l2cap_output() while the link is encrypted, at most once each per completed '
                    'legacy pairing on this connection, never before completion, and with the key material of a bond that was created; no outgoing PDU on an unencrypted link may contain a created long term key. '
                    'Encryption is switched on by key requests and on/off as an injected fault between any two steps.', _SMT + 'key distribution vs. encryption state')
CHECKS['C35'] = _sm('Same world as C32. After every step local_device_pairing_status() must be no_key unless a pairing completed, authenticated_key exactly if the exchange that actually took place authenticated the peer '
                    '(legacy: temporary key from a generated/entered passkey or OOB data, observed at the stubs; LESC: numeric comparison that the user confirmed), unauthenticated_key otherwise. The initiator also drives '
                    'plain just-works message flows with IO capabilities / OOB flags that select other methods.', _SMT + 'reported status vs. executed exchange')
CHECKS['C38'] = _sm('The RNG register of the emulated nRF52 is a seeded byte stream (uniform, biased high, biased low, runs of 0xff). Every passkey generated for display during legacy passkey entry and up to 200000 direct '
                    'draws of create_passkey() per run must lie in 000000..999999 with all upper bytes zero; on uniform streams 20 equal buckets and 7 ranges that modulo reductions would favour must be within 7 sigma.',
                    'deterministic simulation: seeded RNG register streams, range check of every generated passkey and coarse uniformity statistics', 'Fine bias (below about 1 %) is not decidable by sampling and not claimed.')


CHECKS['C31'] = {
    'harnesses': [{'harness': 'l2cap_sim', 'binary': 'l2cap_sim'}],
    'technique': 'deterministic simulation: seeded interleavings of central frames, signaling commands/responses, application requests, link layer polls and buffer shortage against a channel/signaling reference model, under ASan',
    'design_ref': 'DESIGN.md 4.3, 6 (C31)',
    'level_text': 'Seeded search over interleavings of three parties on bluetoe::details::l2cap<> with the real signaling channel and two recording channels: the central sends frames with right and wrong length fields, '
                  'known and unknown channel ids, runt frames, signaling commands of every code and responses with matching, foreign and zero identifiers and wrong lengths; the application queues parameter update requests; the link '
                  'layer polls, and for phases has no transmit buffer (input is deferred and retried). Oracles after every step: delivery to exactly the named channel and only with a matching length field, answers on the '
                  'request\'s channel, inside the exactly sized heap buffer (ASan) with a consistent length field, silence for unknown channels; the update request is sent once with the queued values, only the matching response '
                  'completes it (asked on a copy of the channel), identifiers are non zero and advance, every other command with a non zero identifier gets a Command Reject echoing it. Sampling, not proof.',
    'level_note': 'trusted: the model in harness/l2cap_sim.cpp; the link layer and the ATT/SM channels are stubs (the real ones take part in stack_sim, where C31 is not judged); a response that matches nothing may be rejected or dropped',
    'assumptions': ['allocate_l2cap_output_buffer() hands out the requested payload size plus 4 bytes of header, as ll_l2cap_sdu_buffer does', 'one connection'],
    'explanation': 'A sanitizer abort counts as a violation for this property (replies must fit the allocated buffer).',
}


CHECKS['C40'] = {
    'harnesses': [{'harness': 'csc_sim', 'binary': 'csc_sim'}],
    'technique': 'deterministic simulation: seeded client / sensor / link interleavings on the CSC control point against a procedure automaton, bounded progress after faults stop',
    'design_ref': 'DESIGN.md 4.3, 6 (C40)',
    'level_text': 'Seeded search over sequences of control point writes (every opcode, lengths 0..8), subscription changes, late polls, confirmations, sensor confirmations that come any number of steps later, reads of the '
                  'control point, measurement notifications and disconnect/reconnect, on three CSC server configurations. Model: a procedure is in progress from an accepted write until its response indication is produced. '
                  'Oracles: Procedure Already In Progress only while the model is in progress, no second procedure accepted meanwhile, every response indication names the opcode of the accepted procedure and comes once, '
                  'Set Cumulative Value is answered only after the sensor confirmed; after the faults stop every accepted procedure gets its response within 4 polls and a further valid procedure is accepted and answered. Sampling, not proof.',
    'level_note': 'trusted: the automaton in harness/csc_sim.cpp; the link layer is a stub; a response that cannot be delivered any more because of a disconnect or an unsubscription is outside the property and only counted',
    'assumptions': ['one connection at a time', 'the sensor confirms a new cumulative value only when it was asked to set one'],
    'explanation': 'Known finding: the control point can be read although it is declared no_read_access (C06), which ends a procedure early.',
}


CHECKS['C39'] = {
    'harnesses': [{'harness': 'bl_sim', 'binary': 'bl_sim'}],
    'technique': 'deterministic simulation: seeded client / flash hardware / link interleavings on the bootloader service with a simulated memory that records every handler access, under ASan',
    'design_ref': 'DESIGN.md 4.3, 6 (C39)',
    'level_text': 'Seeded search over sequences of control point writes (every opcode, lengths from 1 byte to the MTU, addresses inside, at the borders of, straddling and outside the white listed regions, as Write Requests and '
                  'Write Commands), data writes of 0..MTU-3 bytes, subscriptions, MTU exchange, late polls and flash completions that arrive any number of steps later (up to two pages outstanding, also across a restarted '
                  'procedure), for four configurations (page size 16/64/256, regions aligned and not aligned to pages). Oracles: every read_mem / start_flash / checksum32 / public_read_mem / public_checksum32 call of the user '
                  'handler lies entirely inside a white listed region; control point values are exactly sized heap blocks (ASan reports a read behind them); every page handed to start_flash is one whole aligned page whose bytes '
                  'are the client\'s bytes at the addresses the client named and the old memory content elsewhere; the checksum announced by progress notifications is the chain over the data up to a page boundary or flush point. Sampling, not proof.',
    'level_note': 'trusted: the session model in harness/bl_sim.cpp (a control point write other than Flush ends the session, a refused or unanswered data write makes the client start over); the user handler (memory, checksums, flash hardware) and the link layer are stubs',
    'assumptions': ['addresses are sizeof( std::uint8_t* ) = 8 bytes on the host', 'one connection'],
    'explanation': 'A sanitizer abort counts as a violation for this property. Known finding: a flash completion that belongs to a restarted procedure is attributed to the new one.',
}

# properties that are deliberately not decided by simulation (see DESIGN.md section 7)
NOT_APPLICABLE = {
    'C04': 'compile-time mapping of the declaration to handles: no schedule, clock, fault or history can influence it (DESIGN.md 7); mapping errors still surface under C02/C03, whose model has an independent handle table',
    'C14': 'pure function of declaration x buffer size with no run-time state; sampling its inputs in a simulator would be input generation under another name (DESIGN.md 7)',
    'C36': 'pure lookup table over (local IO configuration, remote IO capability, OOB flag, auth requirements); nothing to schedule or fault (DESIGN.md 7)',
    'C37': 'pure cryptographic functions of their arguments; no schedule, clock or fault dimension (DESIGN.md 7)',
}

# properties whose harness is not built yet (kept out of the claims until it is)
NOT_YET = {}

ALL_BINARIES = sorted(set(b['binary'] for c in CHECKS.values() for b in c['harnesses']))
