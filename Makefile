# Builds every harness from /repo's current working tree (header dependencies
# are tracked with -MMD, so an edited Bluetoe source triggers a rebuild).
REPO      ?= /repo
BUILD     ?= build
CXX       := g++
SAN       ?= -fsanitize=address,undefined -fno-sanitize-recover=undefined
CXXFLAGS  := -std=c++17 -O1 -g -DNDEBUG -DBLUETOE_VERIF $(SAN) -fno-omit-frame-pointer -Wall -Wno-unused-parameter
INCLUDES  := -Ishim -I$(REPO) -I$(REPO)/bluetoe/sm/include -I$(REPO)/bluetoe/utility/include \
             -I$(REPO)/bluetoe/link_layer/include -I$(REPO)/bluetoe/link_layer/include/bluetoe -I$(REPO)/bluetoe/link_layer \
             -I$(REPO)/bluetoe/bindings/nordic/include
LDFLAGS   := $(SAN) -pthread

HARNESSES := wl_sim nq_sim ring_sim irq_sim pdu_sim sdu_sim

REPO_OBJS := $(BUILD)/repo/address.o $(BUILD)/repo/channel_map.o $(BUILD)/repo/delta_time.o $(BUILD)/repo/connection_details.o

all: $(addprefix $(BUILD)/,$(HARNESSES))

$(BUILD)/sim.o: sim/sim.cpp sim/sim.hpp
	@mkdir -p $(dir $@)
	$(CXX) $(CXXFLAGS) -MMD -c $< -o $@

$(BUILD)/repo/address.o: $(REPO)/bluetoe/utility/address.cpp
	@mkdir -p $(dir $@)
	$(CXX) $(CXXFLAGS) $(INCLUDES) -MMD -c $< -o $@

$(BUILD)/repo/%.o: $(REPO)/bluetoe/link_layer/%.cpp
	@mkdir -p $(dir $@)
	$(CXX) $(CXXFLAGS) $(INCLUDES) -MMD -c $< -o $@

$(BUILD)/%.o: harness/%.cpp sim/sim.hpp
	@mkdir -p $(dir $@)
	$(CXX) $(CXXFLAGS) $(INCLUDES) -MMD -c $< -o $@

$(BUILD)/%: $(BUILD)/%.o $(BUILD)/sim.o $(REPO_OBJS)
	$(CXX) $^ $(LDFLAGS) -o $@

clean:
	rm -rf $(BUILD)

.PHONY: all clean
.SECONDARY:
-include $(wildcard $(BUILD)/*.d) $(wildcard $(BUILD)/repo/*.d)
