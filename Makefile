# Builds every harness from /repo's current working tree (header dependencies
# are tracked with -MMD, so an edited Bluetoe source triggers a rebuild).
REPO      ?= /repo
BUILD     ?= build
CXX       := g++
SAN       ?= -fsanitize=address,undefined -fno-sanitize-recover=undefined
CXXFLAGS  := -std=c++17 -O1 -g -DNDEBUG -DBLUETOE_VERIF $(SAN) -fno-omit-frame-pointer -Wall -Wno-unused-parameter
INCLUDES  := -Ishim -I$(REPO) -I$(REPO)/bluetoe/sm/include -I$(REPO)/bluetoe/utility/include \
             -I$(REPO)/bluetoe/link_layer/include -I$(REPO)/bluetoe/link_layer/include/bluetoe -I$(REPO)/bluetoe/link_layer \
             -I$(REPO)/bluetoe/bindings/nordic/include
LDFLAGS   := $(SAN) -pthread

HARNESSES := wl_sim nq_sim ring_sim irq_sim pdu_sim sdu_sim gatt_sim stack_sim sm_sim l2cap_sim csc_sim bl_sim nrf_sim lat_sim

REPO_OBJS := $(BUILD)/repo/address.o $(BUILD)/repo/channel_map.o $(BUILD)/repo/delta_time.o $(BUILD)/repo/connection_details.o

all: $(addprefix $(BUILD)/,$(HARNESSES))

$(BUILD)/sim.o: sim/sim.cpp sim/sim.hpp
	@mkdir -p $(dir $@)
	$(CXX) $(CXXFLAGS) -MMD -c $< -o $@

$(BUILD)/repo/address.o: $(REPO)/bluetoe/utility/address.cpp
	@mkdir -p $(dir $@)
	$(CXX) $(CXXFLAGS) $(INCLUDES) -MMD -c $< -o $@

$(BUILD)/repo/%.o: $(REPO)/bluetoe/link_layer/%.cpp
	@mkdir -p $(dir $@)
	$(CXX) $(CXXFLAGS) $(INCLUDES) -MMD -c $< -o $@


$(BUILD)/%.o: harness/%.cpp sim/sim.hpp
	@mkdir -p $(dir $@)
	$(CXX) $(CXXFLAGS) $(INCLUDES) -MMD -c $< -o $@

$(BUILD)/%: $(BUILD)/%.o $(BUILD)/sim.o $(REPO_OBJS)
	$(CXX) $^ $(LDFLAGS) -o $@

# ---- gatt_sim: generated server configurations (declaration + model table from one abstract description)
GATT_CONFIGS ?= 16
GATT_SEED    ?= 0
GATT_IDS     := $(shell seq 0 $$(( $(GATT_CONFIGS) - 1 )))
GATT_CFG_SRC := $(foreach i,$(GATT_IDS),$(BUILD)/gen/gatt_cfg_$(i).cpp)
GATT_CFG_OBJ := $(foreach i,$(GATT_IDS),$(BUILD)/gen/gatt_cfg_$(i).o)

$(BUILD)/gen/gatt_cfg_list.hpp: gen/gen_configs.py Makefile
	@mkdir -p $(BUILD)/gen
	python3 gen/gen_configs.py $(BUILD)/gen $(GATT_CONFIGS) $(GATT_SEED)

$(GATT_CFG_SRC): $(BUILD)/gen/gatt_cfg_list.hpp

$(BUILD)/gen/%.o: $(BUILD)/gen/%.cpp harness/gatt_world.hpp sim/sim.hpp
	$(CXX) $(CXXFLAGS) $(INCLUDES) -Iharness -I$(BUILD)/gen -MMD -c $< -o $@

$(BUILD)/gatt_sim.o: harness/gatt_sim.cpp harness/gatt_world.hpp $(BUILD)/gen/gatt_cfg_list.hpp sim/sim.hpp
	@mkdir -p $(dir $@)
	$(CXX) $(CXXFLAGS) $(INCLUDES) -Iharness -I$(BUILD)/gen -MMD -c $< -o $@

$(BUILD)/gatt_sim: $(BUILD)/gatt_sim.o $(GATT_CFG_OBJ) $(BUILD)/sim.o $(REPO_OBJS)
	$(CXX) $^ $(LDFLAGS) -o $@

# ---- sm_sim: security managers with the real nRF52 tool box over the emulated RNG/ECB registers of shim/nrf.h
# (the one pointer -> 32 bit register cast in security_tool_box.cpp needs -fpermissive; -no-pie keeps static storage below 4 GiB so the cast is lossless)
NORDIC := $(REPO)/bluetoe/bindings/nordic
SM_INCLUDES := $(INCLUDES) -I$(NORDIC)/nrf52/include -I$(NORDIC)/uECC

$(BUILD)/repo/security_tool_box.o: $(NORDIC)/nrf52/security_tool_box.cpp shim/nrf.h
	@mkdir -p $(dir $@)
	$(CXX) $(CXXFLAGS) -fpermissive -w $(SM_INCLUDES) -MMD -c $< -o $@

$(BUILD)/repo/uECC.o: $(NORDIC)/uECC/uECC.c
	@mkdir -p $(dir $@)
	gcc -O2 -g -w -DuECC_CURVE=uECC_secp256r1 -I$(NORDIC)/uECC -MMD -c $< -o $@

$(BUILD)/sm_sim.o: harness/sm_sim.cpp sim/sim.hpp shim/nrf.h
	@mkdir -p $(dir $@)
	$(CXX) $(CXXFLAGS) -Wno-deprecated-declarations $(SM_INCLUDES) -MMD -c $< -o $@

$(BUILD)/sm_sim: $(BUILD)/sm_sim.o $(BUILD)/sim.o $(BUILD)/repo/address.o $(BUILD)/repo/security_tool_box.o $(BUILD)/repo/uECC.o
	$(CXX) $^ $(LDFLAGS) -no-pie -lcrypto -o $@

# ---- nrf_sim: the real nRF52 radio front end (nrf52.hpp) on a simulated Hardware; no register level code is compiled
$(BUILD)/nrf_sim.o: harness/nrf_sim.cpp harness/nrf_front.hpp sim/sim.hpp shim/nrf.h
	@mkdir -p $(dir $@)
	$(CXX) $(CXXFLAGS) $(SM_INCLUDES) -MMD -c $< -o $@

# ---- pdu_sim: configurations 10..19 run the connection event half of the same front end
$(BUILD)/pdu_sim.o: harness/pdu_sim.cpp harness/nrf_front.hpp sim/sim.hpp shim/nrf.h
	@mkdir -p $(dir $@)
	$(CXX) $(CXXFLAGS) $(SM_INCLUDES) -MMD -c $< -o $@

# ---- stack_sim: one source compiled in five parts (link layer configurations 0-2 + harness, 3-4, 5-6, 7-9, 10-11) so that they build in parallel;
# parts 3 and 4 put the real nRF52 front end between link layer and world (harness/nrf_bridge.hpp)
STACK_PARTS := $(BUILD)/stack_sim_p0.o $(BUILD)/stack_sim_p1.o $(BUILD)/stack_sim_p2.o $(BUILD)/stack_sim_p3.o $(BUILD)/stack_sim_p4.o $(BUILD)/stack_sim_p5.o
$(BUILD)/stack_sim_p%.o: harness/stack_sim.cpp harness/stack_world.hpp harness/sim_radio.hpp harness/nrf_bridge.hpp sim/sim.hpp shim/nrf.h
	@mkdir -p $(dir $@)
	$(CXX) $(CXXFLAGS) -Wno-deprecated-declarations $(SM_INCLUDES) -DSTACK_PART=$* -DBLUETOE_VERIF_INITIAL_EVENT_COUNTER=::stack::g_initial_event_counter -MMD -c $< -o $@

# (part 5 links the binding's security tool box: see sm_sim for -no-pie)
$(BUILD)/stack_sim: $(STACK_PARTS) $(BUILD)/sim.o $(REPO_OBJS) $(BUILD)/repo/security_tool_box.o $(BUILD)/repo/uECC.o
	$(CXX) $^ $(LDFLAGS) -no-pie -lcrypto -o $@

clean:
	rm -rf $(BUILD)

.PHONY: all clean
.SECONDARY:
# dependency files are written by the compiler, never made
%.d: ;

-include $(wildcard $(BUILD)/*.d) $(wildcard $(BUILD)/repo/*.d) $(wildcard $(BUILD)/gen/*.d)
