# Builds every harness from /repo's current working tree (header dependencies
# are tracked with -MMD, so an edited Bluetoe source triggers a rebuild).
REPO      ?= /repo
BUILD     ?= build
CXX       := g++
SAN       ?= -fsanitize=address,undefined -fno-sanitize-recover=undefined
CXXFLAGS  := -std=c++17 -O1 -g -DNDEBUG -DBLUETOE_VERIF $(SAN) -fno-omit-frame-pointer -Wall -Wno-unused-parameter
INCLUDES  := -Ishim -I$(REPO) -I$(REPO)/bluetoe/sm/include -I$(REPO)/bluetoe/utility/include \
             -I$(REPO)/bluetoe/link_layer/include -I$(REPO)/bluetoe/link_layer/include/bluetoe -I$(REPO)/bluetoe/link_layer \
             -I$(REPO)/bluetoe/bindings/nordic/include
LDFLAGS   := $(SAN) -pthread

HARNESSES := wl_sim nq_sim ring_sim irq_sim pdu_sim sdu_sim gatt_sim stack_sim

REPO_OBJS := $(BUILD)/repo/address.o $(BUILD)/repo/channel_map.o $(BUILD)/repo/delta_time.o $(BUILD)/repo/connection_details.o

all: $(addprefix $(BUILD)/,$(HARNESSES))

$(BUILD)/sim.o: sim/sim.cpp sim/sim.hpp
	@mkdir -p $(dir $@)
	$(CXX) $(CXXFLAGS) -MMD -c $< -o $@

$(BUILD)/repo/address.o: $(REPO)/bluetoe/utility/address.cpp
	@mkdir -p $(dir $@)
	$(CXX) $(CXXFLAGS) $(INCLUDES) -MMD -c $< -o $@

$(BUILD)/repo/%.o: $(REPO)/bluetoe/link_layer/%.cpp
	@mkdir -p $(dir $@)
	$(CXX) $(CXXFLAGS) $(INCLUDES) -MMD -c $< -o $@

$(BUILD)/stack_sim.o: harness/stack_world.hpp harness/sim_radio.hpp

$(BUILD)/%.o: harness/%.cpp sim/sim.hpp
	@mkdir -p $(dir $@)
	$(CXX) $(CXXFLAGS) $(INCLUDES) -MMD -c $< -o $@

$(BUILD)/%: $(BUILD)/%.o $(BUILD)/sim.o $(REPO_OBJS)
	$(CXX) $^ $(LDFLAGS) -o $@

# ---- gatt_sim: generated server configurations (declaration + model table from one abstract description)
GATT_CONFIGS ?= 16
GATT_SEED    ?= 0
GATT_IDS     := $(shell seq 0 $$(( $(GATT_CONFIGS) - 1 )))
GATT_CFG_SRC := $(foreach i,$(GATT_IDS),$(BUILD)/gen/gatt_cfg_$(i).cpp)
GATT_CFG_OBJ := $(foreach i,$(GATT_IDS),$(BUILD)/gen/gatt_cfg_$(i).o)

$(BUILD)/gen/gatt_cfg_list.hpp: gen/gen_configs.py Makefile
	@mkdir -p $(BUILD)/gen
	python3 gen/gen_configs.py $(BUILD)/gen $(GATT_CONFIGS) $(GATT_SEED)

$(GATT_CFG_SRC): $(BUILD)/gen/gatt_cfg_list.hpp

$(BUILD)/gen/%.o: $(BUILD)/gen/%.cpp harness/gatt_world.hpp sim/sim.hpp
	$(CXX) $(CXXFLAGS) $(INCLUDES) -Iharness -I$(BUILD)/gen -MMD -c $< -o $@

$(BUILD)/gatt_sim.o: harness/gatt_sim.cpp harness/gatt_world.hpp $(BUILD)/gen/gatt_cfg_list.hpp sim/sim.hpp
	@mkdir -p $(dir $@)
	$(CXX) $(CXXFLAGS) $(INCLUDES) -Iharness -I$(BUILD)/gen -MMD -c $< -o $@

$(BUILD)/gatt_sim: $(BUILD)/gatt_sim.o $(GATT_CFG_OBJ) $(BUILD)/sim.o $(REPO_OBJS)
	$(CXX) $^ $(LDFLAGS) -o $@

clean:
	rm -rf $(BUILD)

.PHONY: all clean
.SECONDARY:
-include $(wildcard $(BUILD)/*.d) $(wildcard $(BUILD)/repo/*.d) $(wildcard $(BUILD)/gen/*.d)
