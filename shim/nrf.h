// Host-side stand-in for Nordic's <nrf.h>, resolved by include path (no change to /repo).
// Only the registers that Bluetoe's headers and security_tool_box.cpp touch exist, and the few
// with busy-wait loops around them have behaviour owned by the simulator.
#ifndef VERIF_SHIM_NRF_H
#define VERIF_SHIM_NRF_H

#include <cstdint>

#define __NVIC_PRIO_BITS 3

namespace nrf_shim {

    struct reg {
        std::uint32_t v = 0;
        void ( *on_write )( std::uint32_t ) = nullptr;
        operator std::uint32_t() const { return v; }
        reg& operator=( std::uint32_t x ) { v = x; if ( on_write ) on_write( x ); return *this; }
        reg& operator|=( std::uint32_t x ) { return *this = v | x; }
        reg& operator&=( std::uint32_t x ) { return *this = v & x; }
    };

    // simulator owned behaviour
    inline std::uint8_t ( *rng_source )()                          = nullptr;  // next byte of the RNG register
    inline void ( *ecb_engine )( std::uint8_t* key_clear_cipher )  = nullptr;  // AES-128 of the 48 byte ECB data structure
    inline void ( *wfi )()                                         = nullptr;  // "advance the simulation to the next event"
    inline std::uint32_t primask = 0;
}

struct NRF_CLOCK_Type {
    nrf_shim::reg TASKS_HFCLKSTART, TASKS_HFCLKSTOP, TASKS_LFCLKSTART, TASKS_LFCLKSTOP, TASKS_CAL, TASKS_CTSTART, TASKS_CTSTOP;
    nrf_shim::reg EVENTS_HFCLKSTARTED, EVENTS_LFCLKSTARTED, EVENTS_DONE, EVENTS_CTTO;
    nrf_shim::reg INTENSET, INTENCLR, HFCLKSTAT, LFCLKSTAT, LFCLKSRC, CTIV;
};
struct NRF_RTC_Type {
    nrf_shim::reg TASKS_START, TASKS_STOP, TASKS_CLEAR, EVENTS_TICK, EVENTS_OVRFLW, EVENTS_COMPARE[ 4 ];
    nrf_shim::reg INTENSET, INTENCLR, EVTEN, EVTENSET, EVTENCLR, COUNTER, PRESCALER, CC[ 4 ];
};
struct NRF_RNG_Type {
    nrf_shim::reg TASKS_START, TASKS_STOP, EVENTS_VALRDY, SHORTS, INTENSET, INTENCLR, CONFIG, VALUE;
};
struct NRF_ECB_Type {
    nrf_shim::reg TASKS_STARTECB, TASKS_STOPECB, EVENTS_ENDECB, EVENTS_ERRORECB, INTENSET, INTENCLR;
    nrf_shim::reg ECBDATAPTR;
};
struct NRF_RADIO_Type  { nrf_shim::reg PACKETPTR, STATE; };
struct NRF_TIMER_Type  { nrf_shim::reg TASKS_START, TASKS_STOP, TASKS_CLEAR, TASKS_CAPTURE[ 6 ], EVENTS_COMPARE[ 6 ], CC[ 6 ]; };
struct NRF_TEMP_Type   { nrf_shim::reg TASKS_START, EVENTS_DATARDY, TEMP; };
struct NRF_CCM_Type    { nrf_shim::reg TASKS_KSGEN, ENABLE, MODE, CNFPTR, INPTR, OUTPTR, SCRATCHPTR, MICSTATUS; };
struct NRF_AAR_Type    { nrf_shim::reg ENABLE; };
struct NRF_PPI_Type    { nrf_shim::reg CHENSET, CHENCLR; };
struct NRF_GPIOTE_Type { nrf_shim::reg CONFIG[ 8 ]; };
struct NVIC_Type       { nrf_shim::reg ISER[ 8 ], ICER[ 8 ]; };

namespace nrf_shim {
    inline NRF_CLOCK_Type  clock;
    inline NRF_RTC_Type    rtc0;
    inline NRF_RNG_Type    rng;
    inline NRF_ECB_Type    ecb;
    inline NRF_RADIO_Type  radio;
    inline NRF_TIMER_Type  timer0, timer1;
    inline NRF_TEMP_Type   temp;
    inline NRF_CCM_Type    ccm;
    inline NRF_AAR_Type    aar;
    inline NRF_PPI_Type    ppi;
    inline NRF_GPIOTE_Type gpiote;
    inline NVIC_Type       nvic;

    // wire up the registers with behaviour; idempotent, called by every harness before use
    inline void install()
    {
        clock.TASKS_HFCLKSTART.on_write = []( std::uint32_t ) { clock.EVENTS_HFCLKSTARTED.v = 1; };
        clock.TASKS_LFCLKSTART.on_write = []( std::uint32_t ) { clock.EVENTS_LFCLKSTARTED.v = 1; };
        rng.TASKS_START.on_write = []( std::uint32_t ) { rng.VALUE.v = rng_source ? rng_source() : 0; rng.EVENTS_VALRDY.v = 1; };
        ecb.TASKS_STARTECB.on_write = []( std::uint32_t ) {
            if ( ecb_engine ) { ecb_engine( reinterpret_cast< std::uint8_t* >( static_cast< std::uintptr_t >( ecb.ECBDATAPTR.v ) ) ); ecb.EVENTS_ENDECB.v = 1; }
            else ecb.EVENTS_ERRORECB.v = 1;
        };
    }
}

#define NRF_CLOCK   ( &nrf_shim::clock )
#define NRF_RTC0    ( &nrf_shim::rtc0 )
#define NRF_RNG     ( &nrf_shim::rng )
#define NRF_ECB     ( &nrf_shim::ecb )
#define NRF_RADIO   ( &nrf_shim::radio )
#define NRF_TIMER0  ( &nrf_shim::timer0 )
#define NRF_TIMER1  ( &nrf_shim::timer1 )
#define NRF_TEMP    ( &nrf_shim::temp )
#define NRF_CCM     ( &nrf_shim::ccm )
#define NRF_AAR     ( &nrf_shim::aar )
#define NRF_PPI     ( &nrf_shim::ppi )
#define NRF_GPIOTE  ( &nrf_shim::gpiote )
#define NVIC        ( &nrf_shim::nvic )

#define RTC_EVTEN_COMPARE0_Enabled 1u
#define RTC_EVTEN_COMPARE0_Pos     16u
#define RTC_EVTEN_COMPARE1_Enabled 1u
#define RTC_EVTEN_COMPARE1_Pos     17u
#define RTC_EVTEN_OVRFLW_Enabled   1u
#define RTC_EVTEN_OVRFLW_Pos       1u
#define CLOCK_LFCLKSRCCOPY_SRC_Pos   0u
#define CLOCK_LFCLKSRCCOPY_SRC_RC    0u
#define CLOCK_LFCLKSRCCOPY_SRC_Xtal  1u
#define CLOCK_LFCLKSRCCOPY_SRC_Synth 2u

inline void          __WFI()                       { if ( nrf_shim::wfi ) nrf_shim::wfi(); }
inline std::uint32_t __get_PRIMASK()               { return nrf_shim::primask; }
inline void          __set_PRIMASK( std::uint32_t v ) { nrf_shim::primask = v; }
inline void          __disable_irq()               { nrf_shim::primask = 1; }
inline void          __enable_irq()                { nrf_shim::primask = 0; }

#endif
