// sdu_sim - L2CAP fragmentation and reassembly (C19)
//
// Parties: a central that sends well-formed, malformed and interleaved fragment streams (it owns the air; the air is
// perfect here - loss is C15's business), the L2CAP layer (allocate/fill/commit SDUs), the link layer (control PDUs,
// polling next_ll_l2cap_received), the radio ISR.  Real code: ll_l2cap_sdu_buffer (fragmenting variant for MTU > 23 and
// the pass-through specialisation for MTU 23) on top of the real ll_data_pdu_buffer / pdu_ring_buffer.  Stub: radio, central.
#include <iterator>
#include <array>
#include <algorithm>
#include <cstring>
#include <deque>
#include <memory>
#include <cassert>

#include <bluetoe/ll_data_pdu_buffer.hpp>
#include <bluetoe/nrf.hpp>
#include <bluetoe/buffer.hpp>
#include <bluetoe/codes.hpp>
#include <bluetoe/bits.hpp>

// the reassembly state sits inside the object next to its buffers, where ASan cannot see an overflow;
// the harness inspects it after every step (no change to the class: access only)
#define private public
#include <bluetoe/ll_l2cap_sdu_buffer.hpp>
#undef private

#include "../sim/sim.hpp"

namespace {

using bluetoe::link_layer::read_buffer;
using bluetoe::link_layer::write_buffer;

template < std::size_t Tx, std::size_t Rx, bool Enc >
struct radio_stub;

}

namespace bluetoe { namespace link_layer {
    template < std::size_t Tx, std::size_t Rx >
    struct pdu_layout_by_radio< radio_stub< Tx, Rx, true > > {
        using pdu_layout = bluetoe::nrf_details::encrypted_pdu_layout;
    };
} }

namespace {

template < std::size_t Tx, std::size_t Rx, bool Enc >
struct radio_stub : bluetoe::link_layer::ll_data_pdu_buffer< Tx, Rx, radio_stub< Tx, Rx, Enc > >
{
    struct lock_guard { lock_guard() {} ~lock_guard() {} };
    void increment_receive_packet_counter() {}
    void increment_transmit_packet_counter() {}
    read_buffer  isr_allocate_receive_buffer() const { return this->allocate_receive_buffer(); }
    write_buffer isr_received( read_buffer b )          { return this->received( b ); }
    write_buffer isr_next_transmit()                    { return this->next_transmit(); }
};

template < std::size_t Tx, std::size_t Rx, bool Enc, std::size_t MTU >
struct sdu_t : bluetoe::link_layer::ll_l2cap_sdu_buffer< radio_stub< Tx, Rx, Enc >, sdu_t< Tx, Rx, Enc, MTU >, MTU >
{
    unsigned callbacks = 0;
    void pdu_receive_data_callback( const write_buffer& ) { ++callbacks; }
};

enum { op_c_frag, op_c_sdu, op_pump, op_ll_poll, op_l2cap_send, op_ll_send, op_set_max_tx, op_set_max_rx, op_count };
enum { k_start, k_cont, k_control };

struct frag {
    int                         kind;
    std::vector< std::uint8_t > body;
};

using bytes = std::vector< std::uint8_t >;

// access to the reassembly state: only the fragmenting variant has it
template < class S, std::size_t MTU >
struct state_access {
    static constexpr bool available = true;
    static std::size_t used( const S& s ) { return s.receive_buffer_used_; }
    static std::size_t remaining( const S& s ) { return s.receive_size_; }
    static std::size_t capacity( const S& s ) { return sizeof( s.receive_buffer_ ); }
    static const std::uint8_t* tx_begin( const S& s ) { return reinterpret_cast< const std::uint8_t* >( &s.transmit_buffer_[ 0 ] ); }
    static std::size_t tx_size( const S& s ) { return sizeof( s.transmit_buffer_ ); }
    static bool tx_idle( const S& s ) { return s.transmit_size_ == 0 && s.transmit_buffer_used_ == 0; }
};
template < class S >
struct state_access< S, 23 > {
    static constexpr bool available = false;
    static std::size_t used( const S& ) { return 0; }
    static std::size_t remaining( const S& ) { return 0; }
    static std::size_t capacity( const S& ) { return 0; }
    static const std::uint8_t* tx_begin( const S& ) { return nullptr; }
    static std::size_t tx_size( const S& ) { return 0; }
    static bool tx_idle( const S& ) { return true; }
};

template < std::size_t Tx, std::size_t Rx, bool Enc, std::size_t MTU >
void run( const sim::Plan& plan, sim::Result& res )
{
    using S = sdu_t< Tx, Rx, Enc, MTU >;
    using layout = typename S::layout;
    using access = state_access< S, MTU >;
    std::unique_ptr< S > holder( new S );
    S& sdu = *holder;
    const std::string cfg = std::string( Enc ? "encrypted" : "default" ) + " tx " + std::to_string( Tx ) + " rx " + std::to_string( Rx ) + " mtu " + std::to_string( MTU );
    const std::size_t overhead = S::layout_overhead;

    std::deque< frag > cqueue;
    std::vector< frag > sent;               // every fragment the central queued, in order
    bool c_has_inflight = false, c_sn = false, c_nesn = false;
    frag c_inflight;
    std::vector< std::pair< int, bytes > > c_received;       // (llid, payload) of new non-empty PDUs from the peripheral, with the max_tx_size in force
    std::vector< std::size_t > c_received_max_tx;
    std::vector< bytes > l2cap_sent, control_sent;
    std::size_t match_from = 0;             // deliveries are matched against start fragments at or after this index
    std::size_t controls_delivered = 0, data_delivered = 0;
    unsigned serial = 0, n_reassembled = 0, n_fragmented_out = 0, n_hostile = 0;
    bool violated = false;
    std::size_t max_tx_seen = 29;

    auto fresh_bytes = [&]( std::size_t n ) {
        bytes b( n );
        ++serial;
        for ( std::size_t i = 0; i != n; ++i ) b[ i ] = static_cast< std::uint8_t >( serial * 17 + i * 3 + ( i >> 6 ) + 1 );
        return b;
    };

    auto check_state = [&]( long idx, const char* after ) {
        if ( !access::available || violated ) return;
        const std::size_t used = access::used( sdu ), rem = access::remaining( sdu ), cap = access::capacity( sdu );
        if ( used > cap || used + rem > cap )
        {
            violated = true;
            res.violate( "C19", "reassembly-overflow", used > cap ? "reassembly-overflow written" : "reassembly-overflow armed", idx,
                         "%s: after %s the reassembly buffer of %zu bytes holds %zu bytes and expects %zu more: %s", cfg.c_str(), after, cap, used, rem,
                         used > cap ? "bytes were written behind the buffer" : "the announced rest does not fit, the next continuation writes behind the buffer" );
        }
    };

    auto exchange = [&]( long idx ) {
        if ( !c_has_inflight )
        {
            c_has_inflight = true;
            if ( !cqueue.empty() ) { c_inflight = cqueue.front(); cqueue.pop_front(); }
            else { c_inflight = frag{ k_cont, {} }; }
        }
        read_buffer buf = sdu.isr_allocate_receive_buffer();
        write_buffer trans{ nullptr, 0 };
        if ( buf.size == 0 || buf.size < layout::data_channel_pdu_memory_size( c_inflight.body.size() ) )
        {
            res.probe( "receive_buffer_full" );
            trans = sdu.isr_next_transmit();
        }
        else
        {
            const std::uint8_t llid = c_inflight.kind == k_start ? 2 : c_inflight.kind == k_cont ? 1 : 3;
            layout::header( buf, static_cast< std::uint16_t >( llid | ( c_nesn ? 4 : 0 ) | ( c_sn ? 8 : 0 ) | ( c_inflight.body.size() << 8 ) ) );
            std::copy( c_inflight.body.begin(), c_inflight.body.end(), layout::body( buf ).first );
            trans = sdu.isr_received( buf );
        }
        if ( trans.size == 0 ) return;
        const std::uint16_t rh = layout::header( trans );
        const std::size_t rlen = rh >> 8;
        if ( layout::data_channel_pdu_memory_size( rlen ) > trans.size )
        {
            if ( !violated ) res.violate( "C19", "fragment-size", "fragment-size header", idx, "%s: transmitted PDU announces %zu bytes in a buffer of %zu", cfg.c_str(), rlen, trans.size );
            violated = true;
            return;
        }
        const std::uint8_t* rbody = layout::body( read_buffer{ const_cast< std::uint8_t* >( trans.buffer ), trans.size } ).first;
        if ( ( ( rh & 4 ) != 0 ) != c_sn ) { c_sn = !c_sn; c_has_inflight = false; }
        if ( ( ( rh & 8 ) != 0 ) == c_nesn )
        {
            c_nesn = !c_nesn;
            if ( rlen )
            {
                c_received.push_back( { rh & 3, bytes( rbody, rbody + rlen ) } );
                c_received_max_tx.push_back( max_tx_seen );
            }
        }
    };

    // a delivery must be one start fragment followed by its continuations, with the announced length
    auto check_delivery = [&]( const write_buffer& d, long idx ) {
        const std::uint16_t header = layout::header( d );
        const auto body = layout::body( read_buffer{ const_cast< std::uint8_t* >( d.buffer ), d.size } );
        // touch every byte (ASan sees a delivery that reaches behind the object)
        unsigned sum = 0;
        for ( std::size_t i = 0; i != d.size; ++i ) sum += d.buffer[ i ];
        const std::size_t n = static_cast< std::size_t >( body.second - body.first );
        res.note( "deliver llid %u size %zu sum %u", header & 3, n, sum & 0xffff );
        if ( ( header & 3 ) == 3 )
        {
            // LL control PDU: passes through unchanged
            std::size_t seen = 0;
            const frag* expect = nullptr;
            for ( const auto& f : sent )
                if ( f.kind == k_control && seen++ == controls_delivered ) { expect = &f; break; }
            if ( !expect || expect->body.size() != ( header >> 8 ) || !std::equal( expect->body.begin(), expect->body.end(), body.first ) )
                res.violate( "C15", "control-pdu-delivery", "control-pdu-delivery via sdu buffer", idx, "%s: delivered LL control PDU #%zu is not the next control PDU the central sent (duplicate, reordered or altered)", cfg.c_str(), controls_delivered );
            ++controls_delivered;
            return;
        }
        if ( MTU == 23 )
        {
            // pass-through variant: no reassembly state exists, every data PDU is handed on unchanged and in order
            // (l2cap.hpp drops frames whose length field does not match)
            std::size_t seen = 0;
            const frag* expect = nullptr;
            for ( const auto& f : sent )
                if ( f.kind != k_control && seen++ == data_delivered ) { expect = &f; break; }
            if ( ( !expect || expect->body.size() != n || !std::equal( expect->body.begin(), expect->body.end(), body.first ) ) && !violated )
            {
                violated = true;
                res.violate( "C19", "sdu-content", "sdu-content pass-through", idx, "%s: delivered data PDU #%zu (%zu bytes) is not the next data PDU the central sent", cfg.c_str(), data_delivered, n );
            }
            ++data_delivered;
            return;
        }
        if ( n < 4 )
        {
            if ( !violated ) res.violate( "C19", "sdu-length", "sdu-length short", idx, "%s: delivered frame has %zu bytes, less than an L2CAP header", cfg.c_str(), n );
            violated = true;
            return;
        }
        const std::size_t announced = static_cast< std::size_t >( body.first[ 0 ] ) | ( static_cast< std::size_t >( body.first[ 1 ] ) << 8 );
        bool matched = false;
        for ( std::size_t i = match_from; i < sent.size() && !matched; ++i )
        {
            if ( sent[ i ].kind != k_start ) continue;
            bytes concat = sent[ i ].body;
            std::size_t j = i + 1;
            for ( ; j < sent.size() && concat.size() < n; ++j )
            {
                if ( sent[ j ].kind == k_control ) continue;
                if ( sent[ j ].kind == k_start ) break;
                concat.insert( concat.end(), sent[ j ].body.begin(), sent[ j ].body.end() );
            }
            if ( concat.size() >= n && std::equal( body.first, body.second, concat.begin() ) )
            {
                matched = true;
                match_from = i + 1;
                if ( j > i + 1 ) ++n_reassembled;
            }
        }
        if ( announced + 4 != n && !violated )
        {
            // the pass-through variant hands every PDU on as it is; the fragmenting variant promises complete SDUs
            violated = true;
            res.violate( "C19", "sdu-length", "sdu-length", idx, "%s: delivered frame has %zu bytes but its L2CAP header announces %zu + 4", cfg.c_str(), n, announced );
        }
        if ( !matched && !violated )
        {
            violated = true;
            res.violate( "C19", "sdu-content", "sdu-content", idx, "%s: delivered frame of %zu bytes is not a start fragment followed by its continuations as the central sent them", cfg.c_str(), n );
        }
    };

    auto poll = [&]( long idx ) -> bool {
        // snapshot of the transmit side: reassembly must not touch it
        bytes tx_before;
        const bool tx_idle = access::available && access::tx_idle( sdu );
        if ( tx_idle ) tx_before.assign( access::tx_begin( sdu ), access::tx_begin( sdu ) + access::tx_size( sdu ) );
        const write_buffer d = sdu.next_ll_l2cap_received();
        if ( tx_idle && !violated && !std::equal( tx_before.begin(), tx_before.end(), access::tx_begin( sdu ) ) )
        {
            violated = true;
            res.violate( "C19", "reassembly-overflow", "reassembly-overflow into-transmit-buffer", idx, "%s: polling received data changed the idle L2CAP transmit buffer (write behind the reassembly buffer)", cfg.c_str() );
        }
        check_state( idx, "poll" );
        if ( d.size == 0 ) { res.note( "poll -> none" ); return false; }
        if ( !violated ) check_delivery( d, idx );
        sdu.free_ll_l2cap_received();
        check_state( idx, "free" );
        return true;
    };

    long idx = -1;
    for ( const auto& op : plan.ops )
    {
        ++idx;
        if ( violated ) break;
        const std::size_t max_body = sdu.max_rx_size() - 2;
        switch ( ( ( op.kind % op_count ) + op_count ) % op_count )
        {
        case op_c_frag: {
            // arg0 kind, arg1 body length, arg2 announced L2CAP length (start only; -1: consistent with the body)
            frag f;
            f.kind = static_cast< int >( ( ( op.arg( 0 ) % 3 ) + 3 ) % 3 );
            std::size_t len = static_cast< std::size_t >( ( ( op.arg( 1 ) % static_cast< std::int64_t >( max_body + 1 ) ) + static_cast< std::int64_t >( max_body + 1 ) ) % static_cast< std::int64_t >( max_body + 1 ) );
            if ( len == 0 ) len = 1;      // an empty PDU is an empty PDU, not a fragment
            f.body = fresh_bytes( len );
            if ( f.kind == k_start && len >= 4 )
            {
                const std::int64_t ann = op.arg( 2 ) < 0 ? static_cast< std::int64_t >( len ) - 4 : op.arg( 2 ) & 0xffff;
                f.body[ 0 ] = static_cast< std::uint8_t >( ann );
                f.body[ 1 ] = static_cast< std::uint8_t >( ann >> 8 );
                f.body[ 2 ] = 4; f.body[ 3 ] = 0;
            }
            if ( f.kind == k_control ) f.body[ 0 ] = 0x12;      // LL_PING_REQ like
            ++n_hostile;
            res.note( "central queues frag kind %d len %zu", f.kind, len );
            cqueue.push_back( f ); sent.push_back( f );
            break; }
        case op_c_sdu: {
            // a well-formed SDU of arg0 bytes (clipped to the MTU) in fragments of at most arg1 bytes, arg2: interleave a control PDU
            const std::size_t total = 4 + static_cast< std::size_t >( ( ( op.arg( 0 ) % static_cast< std::int64_t >( MTU + 1 ) ) + static_cast< std::int64_t >( MTU + 1 ) ) % static_cast< std::int64_t >( MTU + 1 ) );
            std::size_t fsize = 1 + static_cast< std::size_t >( ( ( op.arg( 1 ) % static_cast< std::int64_t >( max_body ) ) + static_cast< std::int64_t >( max_body ) ) % static_cast< std::int64_t >( max_body ) );
            if ( fsize < 4 ) fsize = 4;
            bytes all = fresh_bytes( total );
            all[ 0 ] = static_cast< std::uint8_t >( total - 4 ); all[ 1 ] = static_cast< std::uint8_t >( ( total - 4 ) >> 8 ); all[ 2 ] = 4; all[ 3 ] = 0;
            std::size_t pos = 0;
            bool first = true;
            while ( pos < total )
            {
                const std::size_t n = std::min( fsize, total - pos );
                frag f{ first ? k_start : k_cont, bytes( all.begin() + static_cast< long >( pos ), all.begin() + static_cast< long >( pos + n ) ) };
                cqueue.push_back( f ); sent.push_back( f );
                pos += n;
                if ( first && ( op.arg( 2 ) & 1 ) && pos < total && MTU == 23 )
                {
                    // (interleaved control PDUs during reassembly: see DESIGN, only exercised where no reassembly state exists)
                    frag c{ k_control, fresh_bytes( 2 ) };
                    cqueue.push_back( c ); sent.push_back( c );
                }
                first = false;
            }
            res.note( "central queues sdu %zu in frags of %zu", total, fsize );
            break; }
        case op_pump: {
            const std::int64_t n = 1 + ( ( op.arg( 0 ) % 4 ) + 4 ) % 4;
            for ( std::int64_t i = 0; i != n && !violated; ++i ) exchange( idx );
            res.note( "pump %lld", (long long)n );
            break; }
        case op_ll_poll:
            poll( idx );
            break;
        case op_l2cap_send: {
            const std::size_t payload = static_cast< std::size_t >( ( ( op.arg( 0 ) % static_cast< std::int64_t >( MTU + 1 ) ) + static_cast< std::int64_t >( MTU + 1 ) ) % static_cast< std::int64_t >( MTU + 1 ) );
            read_buffer b = sdu.allocate_l2cap_transmit_buffer( payload );
            if ( b.size == 0 ) { res.note( "l2cap_send: no buffer" ); res.probe( "l2cap_transmit_buffer_busy" ); break; }
            if ( b.size < layout::data_channel_pdu_memory_size( payload + 4 ) )
            {
                violated = true;
                res.violate( "C19", "l2cap-buffer-size", "l2cap-buffer-size", idx, "%s: allocate_l2cap_transmit_buffer(%zu) returned %zu bytes", cfg.c_str(), payload, b.size );
                break;
            }
            bytes all = fresh_bytes( payload + 4 );
            all[ 0 ] = static_cast< std::uint8_t >( payload ); all[ 1 ] = static_cast< std::uint8_t >( payload >> 8 ); all[ 2 ] = 4; all[ 3 ] = 0;
            // what link_layer::commit_l2cap_output_buffer does: LL header with (truncated) length, then the L2CAP frame
            layout::header( b, static_cast< std::uint16_t >( 2 | ( ( ( payload + 4 ) & 0xff ) << 8 ) ) );
            std::copy( all.begin(), all.end(), layout::body( b ).first );
            sdu.commit_l2cap_transmit_buffer( b );
            l2cap_sent.push_back( all );
            res.note( "l2cap_send %zu", payload );
            break; }
        case op_ll_send: {
            const std::size_t len = 1 + static_cast< std::size_t >( ( ( op.arg( 0 ) % 26 ) + 26 ) % 26 );
            read_buffer b = sdu.allocate_ll_transmit_buffer( len );
            if ( b.size == 0 ) { res.note( "ll_send: no buffer" ); break; }
            bytes body = fresh_bytes( len );
            layout::header( b, static_cast< std::uint16_t >( 3 | ( len << 8 ) ) );
            std::copy( body.begin(), body.end(), layout::body( b ).first );
            sdu.commit_ll_transmit_buffer( b );
            control_sent.push_back( body );
            res.note( "ll_send %zu", len );
            break; }
        case op_set_max_tx: {
            // at most half of the ring: a ring smaller than two maximum-size PDUs can stall (known finding under C15, not this property's business)
            const std::size_t lo = 29, hi = std::min< std::size_t >( 251, Tx / 2 > overhead + 29 ? Tx / 2 - overhead : 29 );
            const std::size_t v = lo + static_cast< std::size_t >( ( ( op.arg( 0 ) % static_cast< std::int64_t >( hi - lo + 1 ) ) + static_cast< std::int64_t >( hi - lo + 1 ) ) % static_cast< std::int64_t >( hi - lo + 1 ) );
            sdu.max_tx_size( v );
            max_tx_seen = std::max( max_tx_seen, v );
            res.note( "max_tx_size %zu", v );
            break; }
        case op_set_max_rx: {
            const std::size_t lo = 29, hi = std::min< std::size_t >( 251, Rx / 2 > overhead + 29 ? Rx / 2 - overhead : 29 );
            const std::size_t v = lo + static_cast< std::size_t >( ( ( op.arg( 0 ) % static_cast< std::int64_t >( hi - lo + 1 ) ) + static_cast< std::int64_t >( hi - lo + 1 ) ) % static_cast< std::int64_t >( hi - lo + 1 ) );
            bool fits = !( c_has_inflight && c_inflight.body.size() + 2 > v );
            for ( const auto& f : cqueue ) if ( f.body.size() + 2 > v ) fits = false;
            if ( fits ) { sdu.max_rx_size( v ); res.note( "max_rx_size %zu", v ); }
            break; }
        }
        check_state( idx, "op" );
    }
    // drain: perfect air, everybody keeps going
    const long end_idx = static_cast< long >( plan.ops.size() );
    {
        std::size_t out_bytes = 0;
        for ( const auto& s : l2cap_sent ) out_bytes += s.size();
        const std::size_t bound = 3 * ( cqueue.size() + l2cap_sent.size() + control_sent.size() + out_bytes / 20 ) + 12;
        for ( std::size_t step = 0; step < bound && !violated; ++step )
        {
            exchange( end_idx );
            while ( !violated && poll( end_idx ) ) {}
        }
    }
    // outgoing: one start fragment plus continuations per SDU, concatenating to the SDU; control PDUs unchanged
    if ( !violated )
    {
        std::size_t sdu_i = 0, ctl_i = 0;
        bytes cur;
        std::size_t cur_need = 0;
        bool in_sdu = false;
        unsigned frags = 0;
        for ( std::size_t k = 0; k != c_received.size() && !violated; ++k )
        {
            const int llid = c_received[ k ].first;
            const bytes& p = c_received[ k ].second;
            if ( p.size() + 2 > c_received_max_tx[ k ] && p.size() + 2 > sdu.max_tx_size() )
            {
                violated = true;
                res.violate( "C19", "fragment-size", "fragment-size", end_idx, "%s: PDU with %zu payload bytes exceeds the maximum PDU size %zu", cfg.c_str(), p.size(), std::max( c_received_max_tx[ k ], sdu.max_tx_size() ) );
                break;
            }
            if ( llid == 3 )
            {
                if ( ctl_i >= control_sent.size() || control_sent[ ctl_i ] != p )
                {
                    violated = true;
                    res.violate( "C19", "outgoing-control", "outgoing-control", end_idx, "%s: control PDU #%zu arrived altered at the central", cfg.c_str(), ctl_i );
                }
                ++ctl_i;
                continue;
            }
            if ( llid == 2 )
            {
                if ( in_sdu )
                {
                    violated = true;
                    res.violate( "C19", "outgoing-fragments", "outgoing-fragments start-inside-sdu", end_idx, "%s: a start fragment arrived while SDU #%zu was incomplete (%zu of %zu bytes)", cfg.c_str(), sdu_i, cur.size(), cur_need );
                    break;
                }
                if ( p.size() < 4 )
                {
                    violated = true;
                    res.violate( "C19", "outgoing-fragments", "outgoing-fragments short-start", end_idx, "%s: start fragment with %zu bytes", cfg.c_str(), p.size() );
                    break;
                }
                cur = p; cur_need = 4 + ( p[ 0 ] | ( p[ 1 ] << 8 ) ); in_sdu = true; frags = 1;
            }
            else
            {
                if ( !in_sdu )
                {
                    violated = true;
                    res.violate( "C19", "outgoing-fragments", "outgoing-fragments continuation-without-start", end_idx, "%s: continuation fragment without a start fragment", cfg.c_str() );
                    break;
                }
                cur.insert( cur.end(), p.begin(), p.end() ); ++frags;
            }
            if ( in_sdu && cur.size() >= cur_need )
            {
                if ( sdu_i >= l2cap_sent.size() || l2cap_sent[ sdu_i ] != cur )
                {
                    violated = true;
                    res.violate( "C19", "outgoing-sdu", sdu_i < l2cap_sent.size() && cur.size() != l2cap_sent[ sdu_i ].size() ? "outgoing-sdu length" : "outgoing-sdu content", end_idx,
                                 "%s: fragments received by the central do not concatenate to SDU #%zu (%zu bytes in %u fragments, expected %zu bytes)", cfg.c_str(), sdu_i, cur.size(), frags,
                                 sdu_i < l2cap_sent.size() ? l2cap_sent[ sdu_i ].size() : 0 );
                }
                if ( frags > 1 ) ++n_fragmented_out;
                ++sdu_i; in_sdu = false;
            }
        }
        if ( !violated && ( sdu_i != l2cap_sent.size() || in_sdu ) )
            res.violate( "C19", "outgoing-sdu", "outgoing-sdu lost", end_idx, "%s: %zu SDUs were accepted for transmission, the central received %zu complete ones after the drain", cfg.c_str(), l2cap_sent.size(), sdu_i );
        if ( !violated && ctl_i != control_sent.size() )
            res.violate( "C19", "outgoing-control", "outgoing-control lost", end_idx, "%s: %zu control PDUs committed, %zu received", cfg.c_str(), control_sent.size(), ctl_i );
    }
    if ( n_reassembled ) res.probe( "sdu_reassembled_from_fragments", n_reassembled );
    if ( n_fragmented_out ) res.probe( "sdu_fragmented_on_transmit", n_fragmented_out );
    res.nontrivial = n_reassembled + n_fragmented_out >= 1 || ( MTU == 23 && c_received.size() >= 2 );
    if ( n_hostile ) res.fault( "hostile_fragment", n_hostile );
}

struct sdu_harness : sim::Harness
{
    const char* name() const override { return "sdu_sim"; }
    std::vector< std::string > properties() const override { return { "C19" }; }
    std::string nontrivial_rule( const std::string& ) const override
    {
        return "seeded op sequences: central queues single fragments (start / continuation / control, any length, any announced L2CAP length) and well-formed fragmented SDUs, "
               "packet exchanges, link layer polls, L2CAP layer sends SDUs of 0..MTU bytes, control PDUs, max PDU size changes; 9 (buffer, layout, MTU) configurations incl. the MTU-23 "
               "pass-through variant; a drain follows; non-trivial = at least one SDU reassembled from >1 fragments or fragmented on transmit; distinct = distinct trace hashes";
    }
    std::vector< std::string > real_components() const override { return { "bluetoe/link_layer/ll_l2cap_sdu_buffer.hpp", "bluetoe/link_layer/ll_data_pdu_buffer.hpp", "bluetoe/link_layer/ring_buffer.hpp" }; }
    std::vector< std::string > stub_components() const override { return { "radio", "central (perfect ARQ, hostile fragment generator)", "L2CAP layer / link layer callers" }; }
    bool memory_safety_property( const std::string& ) const override { return true; }
    std::uint64_t default_runs( const std::string&, bool thorough ) const override { return thorough ? 1500000 : 50000; }
    std::vector< std::string > op_names() const override { return { "central_fragment", "central_sdu", "pump", "ll_poll", "l2cap_send", "ll_send", "set_max_tx", "set_max_rx" }; }

    sim::Plan generate( std::uint64_t seed, const std::string& property, bool thorough ) const override
    {
        sim::Rng rng( seed );
        sim::Plan p;
        p.harness = name(); p.property = property; p.seed = seed;
        p.config = static_cast< int >( rng.below( 9 ) );
        const unsigned n_ops = static_cast< unsigned >( rng.range( 4, thorough ? 120 : 60 ) );
        unsigned w[ op_count ];
        const bool hostile = rng.chance( 50 );
        w[ op_c_frag ] = hostile ? static_cast< unsigned >( rng.range( 1, 8 ) ) : 0;
        w[ op_c_sdu ] = static_cast< unsigned >( rng.range( 0, 5 ) );
        w[ op_pump ] = static_cast< unsigned >( rng.range( 2, 10 ) );
        w[ op_ll_poll ] = static_cast< unsigned >( rng.range( 1, 8 ) );
        w[ op_l2cap_send ] = static_cast< unsigned >( rng.range( 0, 5 ) );
        w[ op_ll_send ] = static_cast< unsigned >( rng.range( 0, 2 ) );
        w[ op_set_max_tx ] = rng.chance( 40 ) ? 1 : 0;
        w[ op_set_max_rx ] = rng.chance( 30 ) ? 1 : 0;
        unsigned total = 0;
        for ( auto x : w ) total += x;
        for ( unsigned i = 0; i != n_ops; ++i )
        {
            unsigned r = static_cast< unsigned >( rng.below( total ) ), k = 0;
            while ( r >= w[ k ] ) { r -= w[ k ]; ++k; }
            std::int64_t a0 = rng.range( 0, 300 ), a1 = rng.range( 0, 250 ), a2 = 0;
            if ( k == op_c_frag )
            {
                a0 = rng.range( 0, 2 );
                a1 = rng.chance( 30 ) ? rng.range( 20, 27 ) : rng.range( 1, 250 );
                a2 = rng.chance( 40 ) ? -1 : ( rng.chance( 50 ) ? rng.range( 0, 300 ) : rng.range( 0, 70000 ) );
            }
            else if ( k == op_c_sdu ) { a2 = rng.range( 0, 1 ); if ( rng.chance( 50 ) ) a1 = rng.range( 20, 27 ); }
            p.ops.push_back( sim::Op( static_cast< int >( k ), { a0, a1, a2 } ) );
        }
        return p;
    }

    void execute( const sim::Plan& plan, sim::Result& res ) const override
    {
        const int c = ( ( plan.config % 9 ) + 9 ) % 9;
        res.note( "config %d", c );
        switch ( c )
        {
        case 0: run< 61, 61, false, 23 >( plan, res ); break;
        case 1: run< 62, 62, true, 23 >( plan, res ); break;
        case 2: run< 61, 61, false, 24 >( plan, res ); break;
        case 3: run< 100, 100, false, 65 >( plan, res ); break;
        case 4: run< 124, 124, true, 65 >( plan, res ); break;
        case 5: run< 200, 200, false, 128 >( plan, res ); break;
        case 6: run< 520, 520, false, 247 >( plan, res ); break;
        case 7: run< 600, 600, true, 247 >( plan, res ); break;
        case 8: run< 61, 200, true, 40 >( plan, res ); break;
        }
    }

    std::vector< sim::Op > simplify( const sim::Plan& plan, std::size_t i ) const override
    {
        std::vector< sim::Op > r;
        const sim::Op& op = plan.ops[ i ];
        for ( std::size_t k = 0; k != op.a.size(); ++k )
            if ( op.a[ k ] > 0 ) { sim::Op c = op; c.a[ k ] = op.a[ k ] / 2; r.push_back( c ); }
        return r;
    }
};

}

int main( int argc, char** argv )
{
    sdu_harness h;
    return sim::sim_main( argc, argv, h );
}
