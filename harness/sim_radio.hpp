// sim_radio - an implementation of the scheduled_radio contract (bluetoe/link_layer/scheduled_radio.hpp) whose hardware is the
// simulated world: every scheduling request is recorded, run() hands the pending request to the world, which plays the air,
// the central and every other device, and reports back through the documented callbacks.
#ifndef VERIF_SIM_RADIO_HPP
#define VERIF_SIM_RADIO_HPP

#include <iterator>
#include <array>
#include <algorithm>
#include <cstring>
#include <cstdint>
#include <functional>
#include <memory>
#include <utility>

#include <bluetoe/ll_data_pdu_buffer.hpp>
#include <bluetoe/delta_time.hpp>
#include <bluetoe/connection_events.hpp>
#include <bluetoe/address.hpp>
#include <bluetoe/phy_encodings.hpp>
#include <bluetoe/buffer.hpp>

namespace stack {

// seam in peripheral_latency.hpp (reset_connection_state): the value the connection event counter starts with
inline std::uint16_t g_initial_event_counter = 0;

using bluetoe::link_layer::read_buffer;
using bluetoe::link_layer::write_buffer;
using bluetoe::link_layer::delta_time;
using bluetoe::link_layer::connection_event_events;

// the part of the radio the (non template) world works with
struct radio_state
{
    enum pending_t { nothing, advertising, connection_event };

    pending_t       pending = nothing;
    unsigned        channel = 0;
    write_buffer    adv_data{ nullptr, 0 }, rsp_data{ nullptr, 0 };
    read_buffer     adv_receive{ nullptr, 0 };
    std::uint32_t   when_us = 0, start_us = 0, end_us = 0, interval_us = 0;
    bool            too_late = false;

    std::int64_t    t0_us = 0;          // T0 of the contract, peripheral local time
    std::int64_t    now_us = 0;         // peripheral local time
    std::uint32_t   access_address = 0, crc_init = 0;
    bool            cancel_requested = false;
    int             wake_ups = 0;
    unsigned        phy_rx = 1, phy_tx = 1;
    unsigned        lock_depth = 0;
    std::uint32_t   setup_margin_us = 300;
    bool            refuse_disarm = false;          // buggify: the hardware is too close to the event
    std::uint64_t   scheduled_events = 0, disarmed = 0, adv_schedule_seq = 0, too_late_events = 0;     // too late: a connection event that could not be set up in time any more

    // link encryption as the radio sees it (only used by radios with hardware_supports_encryption; a flag and a key, no cipher:
    // the air of the simulated world decides from flag and key of both sides whether a PDU can be decoded)
    bool            rx_enc = false, tx_enc = false, key_set = false;
    std::array< std::uint8_t, 16 > enc_key{};
    unsigned        enc_setups = 0, rx_enc_starts = 0;

    // type erased access to the layers above and below
    std::function< void( const read_buffer& ) >             cb_adv_received;
    std::function< void() >                                 cb_adv_timeout, cb_timeout, cb_try_event_cancelation;
    std::function< void( connection_event_events ) >        cb_end_event;
    std::function< bool( const bluetoe::link_layer::device_address& ) > cb_scan_request_in_filter;
    std::function< read_buffer() >                          buf_allocate_receive;
    std::function< write_buffer( read_buffer ) >            buf_received;
    std::function< write_buffer() >                         buf_next_transmit;
    std::function< write_buffer( read_buffer ) >            buf_mic_failed;         // valid CRC, content that cannot be decoded
    // the world
    std::function< void( radio_state& ) >                   world_activity;
    // set by the radio that runs the real nRF52 front end (harness/nrf_bridge.hpp): the radio decides about scan requests itself,
    // exchanges one pair of PDUs per connection event and treats a CRC error as no reception
    bool                                                    real_front = false;
    std::function< bool( const std::uint8_t*, std::size_t ) > front_adv_reception;     // -> a scan response was sent
    write_buffer                                            front_response{ nullptr, 0 };
    std::uint8_t                                            front_rx_header[ 2 ] = { 0, 0 };
};

inline radio_state* g_current_radio = nullptr;     // set while a link layer is constructed / alive (one world per process at a time)

template < std::size_t TransmitSize, std::size_t ReceiveSize, typename CallBack >
class sim_radio : public bluetoe::link_layer::ll_data_pdu_buffer< TransmitSize, ReceiveSize, sim_radio< TransmitSize, ReceiveSize, CallBack > >, public radio_state
{
public:
    sim_radio()
    {
        g_current_radio = this;
        cb_adv_received          = [ this ]( const read_buffer& b ) { static_cast< CallBack* >( this )->adv_received( b ); };
        cb_adv_timeout           = [ this ]() { static_cast< CallBack* >( this )->adv_timeout(); };
        cb_timeout               = [ this ]() { static_cast< CallBack* >( this )->timeout(); };
        cb_try_event_cancelation = [ this ]() { static_cast< CallBack* >( this )->try_event_cancelation(); };
        cb_end_event             = [ this ]( connection_event_events e ) { static_cast< CallBack* >( this )->end_event( e ); };
        cb_scan_request_in_filter = [ this ]( const bluetoe::link_layer::device_address& a ) { return static_cast< CallBack* >( this )->is_scan_request_in_filter( a ); };
        buf_allocate_receive     = [ this ]() { return this->allocate_receive_buffer(); };
        buf_received             = [ this ]( read_buffer b ) { return this->received( b ); };
        buf_next_transmit        = [ this ]() { return this->next_transmit(); };
        buf_mic_failed           = [ this ]( read_buffer ) { return this->next_transmit(); };
    }

    void schedule_advertisment( unsigned ch, const write_buffer& advertising_data, const write_buffer& response_data, delta_time when, const read_buffer& receive )
    {
        ++adv_schedule_seq;
        pending = advertising; channel = ch; adv_data = advertising_data; rsp_data = response_data; when_us = when.usec(); adv_receive = receive;
    }

    delta_time schedule_connection_event( unsigned ch, delta_time start_receive, delta_time end_receive, delta_time connection_interval )
    {
        pending = connection_event; channel = ch; start_us = start_receive.usec(); end_us = end_receive.usec(); interval_us = connection_interval.usec();
        ++scheduled_events;
        const std::int64_t start = t0_us + start_us;
        too_late = start < now_us + static_cast< std::int64_t >( setup_margin_us );
        if ( too_late ) { ++too_late_events; return delta_time(); }
        return delta_time( static_cast< std::uint32_t >( start - now_us ) );
    }

    std::pair< bool, delta_time > disarm_connection_event()
    {
        if ( pending != connection_event || refuse_disarm || too_late ) return { false, delta_time() };
        const std::int64_t start = t0_us + start_us;
        if ( start < now_us + static_cast< std::int64_t >( 2 * setup_margin_us ) ) return { false, delta_time() };
        pending = nothing;
        ++disarmed;
        return { true, delta_time( static_cast< std::uint32_t >( now_us - t0_us + setup_margin_us ) ) };
    }

    bool schedule_synchronized_user_timer( delta_time, delta_time ) { return false; }
    bool cancel_synchronized_user_timer() { return false; }

    void set_access_address_and_crc_init( std::uint32_t aa, std::uint32_t crc ) { access_address = aa; crc_init = crc; }
    std::uint32_t static_random_address_seed() const { return 0x47110815; }

    void run()
    {
        // requests from other contexts are served first, the CPU is handed back after that
        if ( cancel_requested )
        {
            cancel_requested = false;
            cb_try_event_cancelation();
            return;
        }
        if ( wake_ups ) { --wake_ups; return; }
        if ( world_activity ) world_activity( *this );
    }

    void increment_receive_packet_counter() {}
    void increment_transmit_packet_counter() {}

    void wake_up() { ++wake_ups; }
    void request_event_cancelation() { cancel_requested = true; }

    class lock_guard
    {
    public:
        lock_guard() { if ( g_current_radio ) ++g_current_radio->lock_depth; }
        ~lock_guard() { if ( g_current_radio ) --g_current_radio->lock_depth; }
        lock_guard( const lock_guard& ) = delete;
        lock_guard& operator=( const lock_guard& ) = delete;
    };

    static constexpr std::size_t radio_maximum_white_list_entries = 0;
    void radio_set_phy( std::uint8_t receiving, std::uint8_t transmiting )
    {
        phy_rx = receiving; phy_tx = transmiting;
    }

    static constexpr std::size_t radio_package_overhead = 0;
    static constexpr bool hardware_supports_encryption = false;
    static constexpr bool hardware_supports_2mbit = true;
    static constexpr bool hardware_supports_synchronized_user_timer = false;
    static constexpr unsigned connection_event_setup_time_us = 300;
};

}

#endif
