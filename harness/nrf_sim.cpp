// nrf_sim - requests received while advertising, decided by the real nRF52 radio front end (C25)
//
// Parties: scanners and initiators (requests of every type, length, address and address type, good and bad CRC), the link layer
// (schedules the advertising PDUs, owns the filter), the radio hardware (fires the radio interrupt with the reception result).
//
// Real code: nrf52_radio_base::schedule_advertisment(), radio_interrupt_handler() (advertising states), is_valid_scan_request(),
// run() of bluetoe/bindings/nordic/nrf52/include/bluetoe/nrf52.hpp, for the plain and the encryption capable radio (PDU layout with
// the gap byte).  Stubs: the Hardware abstraction (harness/nrf_front.hpp), the link layer callbacks and the scan request filter.
#include "nrf_front.hpp"
#include "../sim/sim.hpp"

#include <memory>

namespace {

using bytes = std::vector< std::uint8_t >;

enum { op_adv, op_count };

template < bool Crypto >
void run( const sim::Plan& plan, sim::Result& res )
{
    nrf_front::reset_hardware();
    using front_t = nrf_front::front< 61, 61, Crypto >;
    nrf_front::static_like< front_t > radio;
    constexpr std::size_t gap = Crypto ? 1 : 0;
    nrf_front::hw_state& hw = nrf_front::g_hw;

    const bool own_random = plan.knob( "own_random" ) != 0;
    const std::uint8_t own[ 6 ] = { 0xb1, 0xb2, 0xb3, 0xb4, 0xb5, 0xc6 };
    unsigned responses = 0, delivered = 0, requests = 0, filter_hits = 0;

    long idx = -1;
    for ( const auto& op : plan.ops )
    {
        ++idx;
        // a0 advertising type (0 ADV_IND, 2 ADV_NONCONN_IND, 6 ADV_SCAN_IND), a1 what answers (0 nothing, 1 scan request, 2 connect request, 3 other), a2 variation,
        // a3 scanner address selector, a4 scanner address random, a5 reception (0 good, 1 CRC error), a6 filter answer
        const int adv_type = op.arg( 0 ) % 3 == 0 ? 0 : op.arg( 0 ) % 3 == 1 ? 2 : 6;
        const bool scannable = adv_type != 2;
        const int what = static_cast< int >( ( ( op.arg( 1 ) % 4 ) + 4 ) % 4 );
        const int var = static_cast< int >( ( ( op.arg( 2 ) % 8 ) + 8 ) % 8 );
        const std::uint8_t sc = static_cast< std::uint8_t >( op.arg( 3 ) & 0xff );
        const bool sc_random = ( op.arg( 4 ) & 1 ) != 0;
        const bool crc_error = ( op.arg( 5 ) & 1 ) != 0;
        radio->filter_answer = ( op.arg( 6 ) & 1 ) == 0;

        // ---- the link layer hands the PDUs over (layout of the radio: header, gap, body)
        std::uint8_t adv_pdu[ 48 ] = { 0 }, rsp_pdu[ 48 ] = { 0 }, rx_pdu[ 64 ];
        std::memset( rx_pdu, 0x77, sizeof rx_pdu );
        adv_pdu[ 0 ] = static_cast< std::uint8_t >( adv_type | ( own_random ? 0x40 : 0 ) ); adv_pdu[ 1 ] = 6 + 3;
        std::memcpy( &adv_pdu[ 2 + gap ], own, 6 ); adv_pdu[ 2 + gap + 6 ] = 2; adv_pdu[ 2 + gap + 7 ] = 1; adv_pdu[ 2 + gap + 8 ] = 6;
        rsp_pdu[ 0 ] = static_cast< std::uint8_t >( 0x04 | ( own_random ? 0x40 : 0 ) ); rsp_pdu[ 1 ] = 6;
        std::memcpy( &rsp_pdu[ 2 + gap ], own, 6 );
        const nrf_front::write_buffer adv{ adv_pdu, 2 + gap + 9 };
        const nrf_front::write_buffer rsp = scannable ? nrf_front::write_buffer{ rsp_pdu, 2 + gap + 6 } : nrf_front::write_buffer{ nullptr, 0 };
        const unsigned before_received = radio->n_adv_received, before_timeout = radio->n_adv_timeout;
        const std::size_t queries_before = radio->filter_queries.size();

        radio->schedule_advertisment( 37 + static_cast< unsigned >( idx % 3 ), adv, rsp, nrf_front::delta_time( 1000 ), nrf_front::read_buffer{ rx_pdu, sizeof rx_pdu } );
        if ( !hw.adv_timer || !hw.tx_configured ) { res.violate( "C25", "front-end", "front-end no-advertising", idx, "schedule_advertisment() armed no timer / transmission" ); break; }
        hw.tx_configured = false; hw.rx_configured = false;
        radio->fire_isr();          // the advertising PDU is out: the front end switches to reception
        if ( !hw.rx_configured ) { res.violate( "C25", "front-end", "front-end no-reception", idx, "no reception configured after the advertising PDU" ); break; }

        // ---- somebody answers
        bytes pdu;
        const std::uint8_t scanner[ 6 ] = { sc, 0x11, 0x22, 0x33, 0x44, 0xc5 };
        bool is_scan_request = false, addressed = false;
        if ( what == 1 || what == 2 )
        {
            const std::uint8_t type = what == 1 ? 0x03 : 0x05;
            pdu.push_back( static_cast< std::uint8_t >( type | ( sc_random ? 0x40 : 0 ) | ( own_random ? 0x80 : 0 ) ) );
            pdu.push_back( what == 1 ? 12 : 34 );
            pdu.insert( pdu.end(), scanner, scanner + 6 );
            pdu.insert( pdu.end(), own, own + 6 );
            if ( what == 2 ) for ( int k = 0; k != 22; ++k ) pdu.push_back( static_cast< std::uint8_t >( 0x10 + k ) );
            bool ok = true;
            switch ( var )
            {
            case 1: pdu[ 2 + 6 + 2 ] ^= 0x01; ok = false; break;            // another AdvA
            case 2: pdu[ 0 ] ^= 0x80; ok = false; break;                    // RxAdd: the other address type
            case 3: pdu.push_back( 0 ); ++pdu[ 1 ]; ok = false; break;      // too long
            case 4: pdu.pop_back(); --pdu[ 1 ]; ok = false; break;          // too short
            case 5: pdu[ 2 + 6 + 5 ] ^= 0x80; ok = false; break;            // AdvA differs in the last byte
            default: break;
            }
            is_scan_request = what == 1;
            addressed = ok;
            ++requests;
        }
        else if ( what == 3 )
        {
            // some other advertising channel PDU
            pdu = { static_cast< std::uint8_t >( var ), static_cast< std::uint8_t >( 6 + var ) };
            for ( int k = 0; k != 6 + var; ++k ) pdu.push_back( static_cast< std::uint8_t >( k * 3 ) );
        }

        bool expect_response = false, expect_delivery = false;
        if ( pdu.empty() )
        {
            hw.rx_result = std::make_tuple( false, false, false );
            res.note( "adv type %d: nobody answers", adv_type );
        }
        else
        {
            // the hardware writes header, gap and body into the configured buffer
            if ( hw.rx.size < pdu.size() + gap ) { res.violate( "C25", "front-end", "front-end receive-buffer", idx, "receive buffer of %zu bytes", hw.rx.size ); break; }
            hw.rx.buffer[ 0 ] = pdu[ 0 ]; hw.rx.buffer[ 1 ] = pdu[ 1 ];
            std::copy( pdu.begin() + 2, pdu.end(), hw.rx.buffer + 2 + gap );
            hw.rx_result = crc_error ? std::make_tuple( true, false, false ) : std::make_tuple( true, true, true );
            res.note_bytes( crc_error ? "rx (CRC error)" : "rx", pdu.data(), pdu.size() );
            expect_response = !crc_error && is_scan_request && scannable && addressed && radio->filter_answer;
            expect_delivery = !crc_error && !expect_response;
        }
        hw.tx_configured = false;
        radio->fire_isr();

        bool responded = false;
        if ( hw.tx_configured && hw.tx_final )
        {
            responded = true;
            ++responses;
            if ( hw.tx.buffer != rsp.buffer ) res.violate( "C25", "scan-response-data", "scan-response-data", idx, "the scan response that is transmitted is not the configured response data" );
            hw.tx_configured = false;
            radio->fire_isr();      // response is out
        }
        radio->run();

        // ---- the decision
        const bool got_delivery = radio->n_adv_received != before_received;
        const bool got_timeout  = radio->n_adv_timeout != before_timeout;
        const std::string shape = std::string( what == 1 ? "scan-request" : what == 2 ? "connect-request" : what == 3 ? "other-pdu" : "nothing" ) + ( crc_error ? " crc-error" : "" )
            + ( what == 1 || what == 2 ? ( addressed ? "" : " var=" + std::to_string( var ) ) : "" ) + ( scannable ? "" : " not-scannable" ) + ( radio->filter_answer ? "" : " filtered" );
        if ( responded != expect_response )
            res.violate( "C25", "scan-response-decision", std::string( responded ? "scan-response-sent " : "scan-response-missing " ) + shape, idx, "advertising type %d, received %s%s: the front end %s a scan response, the model says it %s",
                         adv_type, pdu.empty() ? "nothing" : sim::hex( pdu ).c_str(), crc_error ? " with a CRC error" : "", responded ? "sent" : "did not send", expect_response ? "must" : "must not" );
        if ( got_delivery != expect_delivery && responded == expect_response )
            res.violate( "C25", "adv-delivery", std::string( got_delivery ? "adv-delivery unexpected " : "adv-delivery missing " ) + shape, idx, "received %s: %s to the link layer, the model says %s", pdu.empty() ? "nothing" : sim::hex( pdu ).c_str(),
                         got_delivery ? "handed" : "not handed", expect_delivery ? "it must be" : "it must not be" );
        if ( got_delivery )
        {
            ++delivered;
            bytes want;
            want.push_back( pdu[ 0 ] ); want.push_back( pdu[ 1 ] );
            for ( std::size_t k = 0; k != gap; ++k ) want.push_back( radio->last_adv_received.size() > 2 + k ? radio->last_adv_received[ 2 + k ] : 0 );
            want.insert( want.end(), pdu.begin() + 2, pdu.end() );
            const std::size_t announced = std::min< std::size_t >( want.size(), 2 + gap + ( pdu[ 1 ] & 0x3f ) );
            if ( radio->last_adv_received.size() > sizeof rx_pdu || radio->last_adv_received.size() != std::min< std::size_t >( announced, 0x3f )
              || !std::equal( radio->last_adv_received.begin(), radio->last_adv_received.end(), want.begin() ) )
                res.violate( "C25", "adv-delivery-content", "adv-delivery-content", idx, "the link layer got %s for the received PDU %s", sim::hex( radio->last_adv_received ).c_str(), sim::hex( pdu ).c_str() );
        }
        if ( !got_delivery && !got_timeout )
            res.violate( "C25", "front-end", "front-end no-callback", idx, "neither adv_received() nor adv_timeout() was called" );
        // the filter is asked about the scanner: its address and its address type
        if ( radio->filter_queries.size() != queries_before )
        {
            ++filter_hits;
            const auto& q = radio->filter_queries.back();
            if ( q.first != bytes( scanner, scanner + 6 ) || q.second != sc_random )
                res.violate( "C25", "scan-filter-address", q.first != bytes( scanner, scanner + 6 ) ? "scan-filter-address bytes" : "scan-filter-address type", idx,
                             "scan request from %s address %s: the scan filter was asked for %s address %s", sc_random ? "random" : "public", sim::hex( scanner, 6 ).c_str(), q.second ? "random" : "public", sim::hex( q.first ).c_str() );
        }
    }
    if ( responses ) res.probe( "scan_responses", responses );
    if ( delivered ) res.probe( "pdus_handed_to_link_layer", delivered );
    if ( filter_hits ) res.probe( "filter_consulted", filter_hits );
    res.nontrivial = requests >= 2 && responses + delivered >= 1;
    res.steps = plan.ops.size();
}

struct nrf_harness : sim::Harness
{
    const char* name() const override { return "nrf_sim"; }
    std::vector< std::string > properties() const override { return { "C25" }; }
    std::string nontrivial_rule( const std::string& ) const override
    {
        return "seeded sequences of advertising PDUs (ADV_IND, ADV_NONCONN_IND, ADV_SCAN_IND) answered by nothing, scan requests, connect requests and other PDUs with right and wrong AdvA, address type, length, "
               "public and random scanner addresses, CRC errors and filter answers, through the real nRF52 radio front end (plain and encryption capable PDU layout); non-trivial: at least two requests and one "
               "scan response or delivery; distinct = distinct trace hashes";
    }
    std::vector< std::string > real_components() const override { return { "bluetoe/bindings/nordic/nrf52/include/bluetoe/nrf52.hpp (schedule_advertisment, radio_interrupt_handler advertising states, is_valid_scan_request, run)" }; }
    std::vector< std::string > stub_components() const override { return { "Hardware abstraction of the nRF52 binding (harness/nrf_front.hpp; nrf52.cpp is not compiled)", "link layer callbacks and scan request filter" }; }
    std::uint64_t default_runs( const std::string&, bool thorough ) const override { return thorough ? 2000000 : 100000; }
    std::vector< std::string > op_names() const override { return { "adv" }; }

    sim::Plan generate( std::uint64_t seed, const std::string& property, bool thorough ) const override
    {
        sim::Rng rng( seed );
        sim::Plan p;
        p.harness = name(); p.property = property; p.seed = seed;
        p.config = static_cast< int >( rng.below( 2 ) );
        p.knobs[ "own_random" ] = static_cast< std::int64_t >( rng.below( 2 ) );
        const unsigned n = static_cast< unsigned >( rng.range( 2, thorough ? 30 : 15 ) );
        for ( unsigned i = 0; i != n; ++i )
            p.ops.push_back( sim::Op( op_adv, { rng.range( 0, 2 ), rng.chance( 60 ) ? 1 : rng.range( 0, 3 ), rng.chance( 55 ) ? 0 : rng.range( 1, 7 ), rng.range( 0xa0, 0xa5 ), rng.range( 0, 1 ), rng.chance( 85 ) ? 0 : 1, rng.chance( 75 ) ? 0 : 1 } ) );
        return p;
    }

    void execute( const sim::Plan& plan, sim::Result& res ) const override
    {
        res.note( "config %d", plan.config );
        if ( plan.config & 1 ) run< true >( plan, res ); else run< false >( plan, res );
    }

    std::vector< sim::Op > simplify( const sim::Plan& plan, std::size_t i ) const override
    {
        std::vector< sim::Op > r;
        const sim::Op& op = plan.ops[ i ];
        for ( std::size_t a : { std::size_t( 2 ), std::size_t( 5 ), std::size_t( 6 ), std::size_t( 0 ) } ) if ( op.arg( a ) != 0 ) { sim::Op c = op; c.a[ a ] = 0; r.push_back( c ); }
        return r;
    }
};

}

int main( int argc, char** argv )
{
    nrf_harness h;
    return sim::sim_main( argc, argv, h );
}
