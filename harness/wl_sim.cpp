// wl_sim - white list as a bounded set (C26)
//
// Parties: application (add/remove/clear/filter switches), link layer (filter
// queries while advertising).  Real code: white_list<N>::impl, both the software
// variant and the radio-backed variant.  Stub: the radio of the radio-backed
// variant (an independent bounded set that records what was forwarded to it).
#include <iterator>
#include <array>
#include <algorithm>
#include <cstring>
#include <set>
#include <sstream>

#include <bluetoe/white_list.hpp>

#include "../sim/sim.hpp"

using bluetoe::link_layer::device_address;

namespace {

// --- universe of addresses: 6 byte patterns x 2 types
device_address addr_of( std::int64_t n )
{
    const unsigned u = static_cast< unsigned >( ( ( n % 12 ) + 12 ) % 12 );
    const unsigned pattern = u / 2;
    // patterns differ in the first, a middle or the last byte only, so that a partial comparison is noticed
    static const std::uint8_t bytes[ 6 ][ 6 ] = {
        { 0x01, 0x02, 0x03, 0x04, 0x05, 0xc6 },
        { 0x11, 0x02, 0x03, 0x04, 0x05, 0xc6 },
        { 0x01, 0x02, 0x03, 0x04, 0x05, 0xc7 },
        { 0x01, 0x02, 0x13, 0x04, 0x05, 0xc6 },
        { 0x00, 0x00, 0x00, 0x00, 0x00, 0x00 },
        { 0xff, 0xff, 0xff, 0xff, 0xff, 0xff } };
    return device_address( bytes[ pattern ], ( u & 1 ) != 0 );
}

struct model {
    std::set< unsigned > set;
    std::size_t capacity;
    bool conn = false, scan = false;
};

// --- radio stub for the radio-backed variant
template < std::size_t HwSize >
struct stub_radio
{
    static constexpr std::size_t radio_maximum_white_list_entries = HwSize;
    std::set< unsigned > hw;
    bool hw_conn = false, hw_scan = false;
    unsigned forwarded = 0;

    static unsigned index( const device_address& a )
    {
        for ( unsigned i = 0; i != 12; ++i )
            if ( addr_of( i ) == a && addr_of( i ).is_random() == a.is_random() ) return i;
        return 99;
    }
    std::size_t radio_white_list_free_size() const { return HwSize - hw.size(); }
    void radio_clear_white_list() { ++forwarded; hw.clear(); }
    bool radio_add_to_white_list( const device_address& a )
    {
        ++forwarded;
        if ( hw.count( index( a ) ) ) return true;
        if ( hw.size() == HwSize ) return false;
        hw.insert( index( a ) );
        return true;
    }
    bool radio_remove_from_white_list( const device_address& a ) { ++forwarded; return hw.erase( index( a ) ) != 0; }
    bool radio_is_in_white_list( const device_address& a ) const { return hw.count( index( a ) ) != 0; }
    void radio_connection_request_filter( bool b ) { ++forwarded; hw_conn = b; }
    bool radio_connection_request_filter() const { return hw_conn; }
    void radio_scan_request_filter( bool b ) { ++forwarded; hw_scan = b; }
    bool radio_scan_request_filter() const { return hw_scan; }
    bool radio_is_connection_request_in_filter( const device_address& a ) const { return !hw_conn || radio_is_in_white_list( a ); }
    bool radio_is_scan_request_in_filter( const device_address& a ) const { return !hw_scan || radio_is_in_white_list( a ); }
};

template < std::size_t Size, std::size_t HwSize >
struct fake_link_layer : stub_radio< HwSize >, bluetoe::link_layer::white_list< Size >::template impl< stub_radio< HwSize >, fake_link_layer< Size, HwSize > >
{
};

enum { op_add, op_remove, op_clear, op_conn_filter, op_scan_filter, op_query_all, op_query_one, op_count };

template < class LL >
void run( LL& ll, std::size_t capacity, const sim::Plan& plan, sim::Result& res )
{
    model m;
    m.capacity = capacity;
    bool removed_middle = false, add_when_full = false, readd = false;

    auto compare_all = [&]( long at, const char* after ) {
        if ( ll.white_list_free_size() != m.capacity - m.set.size() )
            res.violate( "C26", "free-size", std::string( "free-size after " ) + after, at, "free size %zu, model %zu", ll.white_list_free_size(), m.capacity - m.set.size() );
        if ( ll.connection_request_filter() != m.conn || ll.scan_request_filter() != m.scan )
            res.violate( "C26", "filter-switch", "filter-switch", at, "filter switches read back conn=%d scan=%d, model conn=%d scan=%d",
                         ll.connection_request_filter(), ll.scan_request_filter(), m.conn, m.scan );
        for ( unsigned i = 0; i != 12; ++i )
        {
            const bool in = m.set.count( i ) != 0;
            const device_address a = addr_of( i );
            if ( ll.is_in_white_list( a ) != in )
                res.violate( "C26", "membership", std::string( "membership after " ) + after, at, "address #%u is_in_white_list=%d, model %d", i, !in, in );
            if ( ll.is_connection_request_in_filter( a ) != ( !m.conn || in ) )
                res.violate( "C26", "conn-filter", std::string( "conn-filter after " ) + after, at, "connection filter for address #%u gives %d, model %d (filter %s)", i,
                             ll.is_connection_request_in_filter( a ), !m.conn || in, m.conn ? "on" : "off" );
            if ( ll.is_scan_request_in_filter( a ) != ( !m.scan || in ) )
                res.violate( "C26", "scan-filter", std::string( "scan-filter after " ) + after, at, "scan filter for address #%u gives %d, model %d (filter %s)", i,
                             ll.is_scan_request_in_filter( a ), !m.scan || in, m.scan ? "on" : "off" );
        }
    };

    compare_all( -1, "construction" );
    long idx = -1;
    for ( const auto& op : plan.ops )
    {
        ++idx;
        const unsigned a = static_cast< unsigned >( ( ( op.arg( 0 ) % 12 ) + 12 ) % 12 );
        switch ( ( ( op.kind % op_count ) + op_count ) % op_count )
        {
        case op_add: {
            const bool was_in = m.set.count( a ) != 0;
            const bool expect = was_in || m.set.size() < m.capacity;
            if ( !was_in && m.set.size() == m.capacity ) add_when_full = true;
            if ( was_in ) readd = true;
            if ( expect ) m.set.insert( a );
            const bool got = ll.add_to_white_list( addr_of( a ) );
            res.note( "add %u -> %d", a, got );
            if ( got != expect )
                res.violate( "C26", "add-result", was_in ? "add-result idempotent" : ( expect ? "add-result room" : "add-result full" ), idx,
                             "add_to_white_list(#%u) returned %d, model %d (size %zu of %zu, was in: %d)", a, got, expect, m.set.size(), m.capacity, was_in );
            compare_all( idx, "add" );
            break; }
        case op_remove: {
            const bool expect = m.set.count( a ) != 0;
            if ( expect && m.set.size() >= 3 && *m.set.rbegin() != a ) removed_middle = true;
            m.set.erase( a );
            const bool got = ll.remove_from_white_list( addr_of( a ) );
            res.note( "remove %u -> %d", a, got );
            if ( got != expect )
                res.violate( "C26", "remove-result", "remove-result", idx, "remove_from_white_list(#%u) returned %d, model %d", a, got, expect );
            compare_all( idx, "remove" );
            break; }
        case op_clear:
            m.set.clear();
            ll.clear_white_list();
            res.note( "clear" );
            compare_all( idx, "clear" );
            break;
        case op_conn_filter:
            m.conn = ( op.arg( 0 ) & 1 ) != 0;
            ll.connection_request_filter( m.conn );
            res.note( "conn filter %d", m.conn );
            compare_all( idx, "filter" );
            break;
        case op_scan_filter:
            m.scan = ( op.arg( 0 ) & 1 ) != 0;
            ll.scan_request_filter( m.scan );
            res.note( "scan filter %d", m.scan );
            compare_all( idx, "filter" );
            break;
        case op_query_all:
            res.note( "query all" );
            compare_all( idx, "query" );
            break;
        case op_query_one: {
            const bool in = m.set.count( a ) != 0;
            const bool c = ll.is_connection_request_in_filter( addr_of( a ) );
            const bool s = ll.is_scan_request_in_filter( addr_of( a ) );
            res.note( "query %u -> %d %d", a, c, s );
            if ( c != ( !m.conn || in ) )
                res.violate( "C26", "conn-filter", "conn-filter after query", idx, "connection filter for #%u gives %d", a, c );
            if ( s != ( !m.scan || in ) )
                res.violate( "C26", "scan-filter", "scan-filter after query", idx, "scan filter for #%u gives %d", a, s );
            break; }
        }
    }
    if ( removed_middle ) res.probe( "removed_non_last_entry" );
    if ( add_when_full ) res.probe( "add_when_full" );
    if ( readd ) res.probe( "add_existing" );
    res.nontrivial = removed_middle || add_when_full;
    res.sim_time_us = 0;
}

struct wl_harness : sim::Harness
{
    const char* name() const override { return "wl_sim"; }
    std::vector< std::string > properties() const override { return { "C26" }; }
    std::string nontrivial_rule( const std::string& ) const override
    {
        return "random op sequences (add/remove/clear/filter switches/queries) over 12 device addresses (6 byte patterns x public/random) against "
               "white_list<N>::impl for N in {1,2,3,4,8} (software) and {1,2,4} (radio-backed, radio capacity N); a run is non-trivial if it removed an entry that "
               "was not the most recently stored one from a list of >=3 entries, or tried to add to a full list; distinct = distinct trace hashes";
    }
    std::vector< std::string > real_components() const override { return { "bluetoe/link_layer/white_list.hpp (software and radio-backed impl)", "bluetoe/utility/address.cpp" }; }
    std::vector< std::string > stub_components() const override { return { "radio white list of the radio-backed variant (independent std::set)" }; }
    std::uint64_t default_runs( const std::string&, bool thorough ) const override { return thorough ? 2000000 : 60000; }
    std::vector< std::string > op_names() const override { return { "add", "remove", "clear", "conn_filter", "scan_filter", "query_all", "query_one" }; }

    sim::Plan generate( std::uint64_t seed, const std::string& property, bool thorough ) const override
    {
        sim::Rng rng( seed );
        sim::Plan p;
        p.harness = name(); p.property = property; p.seed = seed;
        p.config = static_cast< int >( rng.below( 8 ) );
        const unsigned n_ops = static_cast< unsigned >( rng.range( 3, thorough ? 80 : 40 ) );
        // swarm: per run weights and the size of the address universe in use
        unsigned w[ op_count ];
        for ( auto& x : w ) x = static_cast< unsigned >( rng.range( 0, 5 ) );
        w[ op_add ] += 3; w[ op_remove ] += 2;
        if ( rng.chance( 50 ) ) w[ op_clear ] = rng.chance( 30 ) ? 1 : 0;
        const unsigned universe = static_cast< unsigned >( rng.range( 2, 12 ) );
        unsigned total = 0;
        for ( auto x : w ) total += x;
        for ( unsigned i = 0; i != n_ops; ++i )
        {
            unsigned r = static_cast< unsigned >( rng.below( total ) ), k = 0;
            while ( r >= w[ k ] ) { r -= w[ k ]; ++k; }
            p.ops.push_back( sim::Op( static_cast< int >( k ), { static_cast< std::int64_t >( rng.below( universe ) ) } ) );
        }
        return p;
    }

    void execute( const sim::Plan& plan, sim::Result& res ) const override
    {
        res.note( "config %d", plan.config );
        switch ( ( ( plan.config % 8 ) + 8 ) % 8 )
        {
        case 0: { fake_link_layer< 1, 0 > ll; run( ll, 1, plan, res ); break; }
        case 1: { fake_link_layer< 2, 0 > ll; run( ll, 2, plan, res ); break; }
        case 2: { fake_link_layer< 3, 0 > ll; run( ll, 3, plan, res ); break; }
        case 3: { fake_link_layer< 4, 0 > ll; run( ll, 4, plan, res ); break; }
        case 4: { fake_link_layer< 8, 4 > ll; run( ll, 8, plan, res ); break; }
        case 5: { fake_link_layer< 1, 1 > ll; run( ll, 1, plan, res ); break; }
        case 6: { fake_link_layer< 2, 2 > ll; run( ll, 2, plan, res ); break; }
        case 7: { fake_link_layer< 4, 4 > ll; run( ll, 4, plan, res ); break; }
        }
    }

    std::vector< sim::Op > simplify( const sim::Plan& plan, std::size_t i ) const override
    {
        std::vector< sim::Op > r;
        const sim::Op& op = plan.ops[ i ];
        if ( op.arg( 0 ) > 0 ) { sim::Op c = op; c.a[ 0 ] = op.arg( 0 ) - 1; r.push_back( c ); }
        return r;
    }
};

}

int main( int argc, char** argv )
{
    wl_harness h;
    return sim::sim_main( argc, argv, h );
}
