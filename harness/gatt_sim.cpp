// gatt_sim - plan generation and dispatch for the GATT server world (see gatt_world.hpp)
#include "gatt_world.hpp"
#include "gatt_cfg_list.hpp"

namespace {

using gatt::bytes;
using gatt::config_desc;

void put16( bytes& b, std::uint16_t v ) { b.push_back( static_cast< std::uint8_t >( v ) ); b.push_back( static_cast< std::uint8_t >( v >> 8 ) ); }

struct crafter
{
    const config_desc& cfg;
    sim::Rng&          rng;

    std::uint16_t any_handle()
    {
        const unsigned x = static_cast< unsigned >( rng.below( 100 ) );
        const gatt::attr_desc& a = cfg.attrs[ rng.below( cfg.n_attrs ) ];
        if ( x < 70 ) return a.handle;
        if ( x < 80 ) return static_cast< std::uint16_t >( a.handle + 1 );
        if ( x < 88 ) return static_cast< std::uint16_t >( a.handle - 1 );
        if ( x < 92 ) return 0;
        if ( x < 95 ) return 0xffff;
        return static_cast< std::uint16_t >( rng.below( 0x130 ) );
    }
    std::uint16_t handle_of_kind( gatt::attr_kind k )
    {
        std::vector< std::uint16_t > hs;
        for ( std::size_t i = 0; i != cfg.n_attrs; ++i ) if ( cfg.attrs[ i ].kind == k ) hs.push_back( cfg.attrs[ i ].handle );
        return hs.empty() ? any_handle() : hs[ rng.below( hs.size() ) ];
    }
    std::pair< std::uint16_t, std::uint16_t > any_range()
    {
        const unsigned x = static_cast< unsigned >( rng.below( 100 ) );
        if ( x < 35 ) return { 1, 0xffff };
        std::uint16_t a = any_handle(), b = any_handle();
        if ( x < 85 && a > b ) std::swap( a, b );
        if ( x < 45 ) b = 0xffff;
        return { a, b };
    }
    bytes any_type()
    {
        // 128 bit types close to the Bluetooth base UUID: the exact expansion of a 16 bit type in use (equal to that type), the expansion of a
        // 32 bit UUID with the same lower half, one bit of the base changed (both different from every 16 bit type)
        if ( rng.chance( 7 ) )
        {
            static const std::uint16_t std_types[] = { 0x2800, 0x2803, 0x2902, 0x2901 };
            std::uint16_t t16 = std_types[ rng.below( 4 ) ];
            if ( rng.chance( 50 ) ) { const gatt::char_desc& ch = cfg.chars[ rng.below( cfg.n_chars ) ]; if ( ch.uuid_len == 2 ) t16 = static_cast< std::uint16_t >( ch.uuid[ 0 ] | ( ch.uuid[ 1 ] << 8 ) ); }
            static const std::uint8_t base[ 16 ] = { 0xFB, 0x34, 0x9B, 0x5F, 0x80, 0x00, 0x00, 0x80, 0x00, 0x10, 0x00, 0x00, 0, 0, 0, 0 };
            bytes l( base, base + 16 ); l[ 12 ] = static_cast< std::uint8_t >( t16 ); l[ 13 ] = static_cast< std::uint8_t >( t16 >> 8 );
            switch ( rng.below( 3 ) )
            {
            case 0: break;
            case 1: if ( rng.chance( 50 ) ) l[ 14 ] = static_cast< std::uint8_t >( 1 + rng.below( 255 ) ); else l[ 15 ] = static_cast< std::uint8_t >( 1 + rng.below( 255 ) ); break;
            default: l[ rng.below( 12 ) ] ^= static_cast< std::uint8_t >( 1u << rng.below( 8 ) ); break;
            }
            return l;
        }
        const unsigned x = static_cast< unsigned >( rng.below( 100 ) );
        bytes t;
        if ( x < 45 ) { static const std::uint16_t std_types[] = { 0x2800, 0x2801, 0x2802, 0x2803, 0x2803, 0x2902, 0x2901, 0x2900 }; put16( t, std_types[ rng.below( 8 ) ] ); return t; }
        if ( x < 85 )
        {
            const gatt::char_desc& ch = cfg.chars[ rng.below( cfg.n_chars ) ];
            t.assign( ch.uuid, ch.uuid + ch.uuid_len );
            if ( ch.uuid_len == 2 && rng.chance( 15 ) )
            {
                // the same type in its 128 bit form
                static const std::uint8_t base[ 16 ] = { 0xFB, 0x34, 0x9B, 0x5F, 0x80, 0x00, 0x00, 0x80, 0x00, 0x10, 0x00, 0x00, 0, 0, 0, 0 };
                bytes l( base, base + 16 ); l[ 12 ] = t[ 0 ]; l[ 13 ] = t[ 1 ]; return l;
            }
            return t;
        }
        if ( x < 93 ) { for ( std::size_t i = 0; i != cfg.n_attrs; ++i ) if ( cfg.attrs[ i ].kind == gatt::a_const && rng.chance( 30 ) ) { put16( t, cfg.attrs[ i ].uuid16 ); return t; } }
        const std::size_t n = rng.chance( 60 ) ? 2 : 16;
        for ( std::size_t i = 0; i != n; ++i ) t.push_back( rng.byte() );
        return t;
    }
    bytes service_uuid()
    {
        if ( rng.chance( 85 ) ) { const gatt::service_desc& s = cfg.services[ rng.below( cfg.n_services ) ]; return bytes( s.uuid, s.uuid + s.uuid_len ); }
        bytes t;
        const std::size_t n = rng.chance( 60 ) ? 2 : 16;
        for ( std::size_t i = 0; i != n; ++i ) t.push_back( rng.byte() );
        return t;
    }
    bytes value_for( std::uint16_t handle, bool small )
    {
        const gatt::attr_desc* a = nullptr;
        for ( std::size_t i = 0; i != cfg.n_attrs; ++i ) if ( cfg.attrs[ i ].handle == handle ) a = &cfg.attrs[ i ];
        std::size_t n = static_cast< std::size_t >( rng.range( 0, small ? 6 : 24 ) );
        if ( a && a->kind == gatt::a_cccd )
        {
            const unsigned x = static_cast< unsigned >( rng.below( 100 ) );
            if ( x < 75 ) return bytes{ static_cast< std::uint8_t >( rng.below( 4 ) ), 0 };
            if ( x < 85 ) return bytes{ static_cast< std::uint8_t >( rng.below( 4 ) ) };
            if ( x < 93 ) return bytes{ rng.byte(), rng.byte() };
            n = static_cast< std::size_t >( rng.range( 0, 4 ) );
        }
        else if ( a && a->kind == gatt::a_value && !small )
        {
            const int size = cfg.chars[ a->chr ].size;
            const unsigned x = static_cast< unsigned >( rng.below( 100 ) );
            if ( x < 50 ) n = static_cast< std::size_t >( size );
            else if ( x < 60 ) n = static_cast< std::size_t >( size + 1 );
            else if ( x < 70 && size ) n = static_cast< std::size_t >( size - 1 );
            else n = static_cast< std::size_t >( rng.range( 0, std::min( size + 2, 60 ) ) );
        }
        bytes v( n );
        for ( auto& b : v ) b = rng.byte();
        return v;
    }

    bytes request( int focus )
    {
        // focus: 0 general, 1 discovery, 2 read/write, 3 long writes, 4 cccd, 5 mtu, 6 hostile
        static const int table[ 7 ][ 14 ] = {
            //  mtu find rbt  rbg fbtv read blob mult write cmd prep exec conf hostile
            {    4,  6,   8,   4,  4,  14,  8,   5,  14,   6,  8,   5,   3,  11 },
            {    2, 18,  22,  14, 14,   6,  3,   2,   6,   2,  2,   1,   1,   7 },
            {    3,  2,   6,   1,  1,  22, 14,   8,  22,  10,  4,   2,   1,   4 },
            {    2,  1,   2,   1,  1,  12,  8,   2,  12,   3, 32,  18,   1,   5 },
            {    2,  1,   4,   1,  1,  16,  6,   3,  34,  12, 10,   4,   3,   3 },
            {   22,  2,  10,   2,  2,  22, 14,   8,   6,   2,  4,   2,   2,   2 },
            {    4,  4,   4,   4,  4,   6,  4,   4,   6,   6,  6,   4,   4,  40 } };
        const int* w = table[ focus ];
        int total = 0;
        for ( int i = 0; i != 14; ++i ) total += w[ i ];
        int r = static_cast< int >( rng.below( static_cast< std::uint64_t >( total ) ) ), k = 0;
        while ( r >= w[ k ] ) { r -= w[ k ]; ++k; }
        bytes b;
        switch ( k )
        {
        case 0: {
            b.push_back( 0x02 );
            static const std::uint16_t mtus[] = { 23, 22, 24, 0, 40, 65, 100, 185, 247, 248, 512, 65535 };
            put16( b, rng.chance( 70 ) ? mtus[ rng.below( 12 ) ] : static_cast< std::uint16_t >( rng.below( 300 ) ) );
            if ( rng.chance( 8 ) ) b.push_back( 0 );
            if ( rng.chance( 4 ) ) b.pop_back();
            break; }
        case 1: { b.push_back( 0x04 ); auto rg = any_range(); put16( b, rg.first ); put16( b, rg.second ); break; }
        case 2: { b.push_back( 0x08 ); auto rg = any_range(); put16( b, rg.first ); put16( b, rg.second ); const bytes t = any_type(); b.insert( b.end(), t.begin(), t.end() ); break; }
        case 3: { b.push_back( 0x10 ); auto rg = any_range(); put16( b, rg.first ); put16( b, rg.second ); if ( rng.chance( 85 ) ) put16( b, 0x2800 ); else { const bytes t = any_type(); b.insert( b.end(), t.begin(), t.end() ); } break; }
        case 4: { b.push_back( 0x06 ); auto rg = any_range(); put16( b, rg.first ); put16( b, rg.second ); put16( b, rng.chance( 90 ) ? 0x2800 : 0x2801 ); const bytes u = service_uuid(); b.insert( b.end(), u.begin(), u.end() ); break; }
        case 5: { b.push_back( 0x0a ); put16( b, any_handle() ); break; }
        case 6: {
            b.push_back( 0x0c );
            const std::uint16_t h = any_handle();
            put16( b, h );
            static const std::uint16_t offs[] = { 0, 1, 2, 3, 4, 5, 19, 20, 21, 22, 23, 30, 31, 48, 49, 64, 65, 1000 };
            put16( b, offs[ rng.below( 18 ) ] );
            break; }
        case 7: { b.push_back( 0x0e ); const int n = static_cast< int >( rng.range( 2, 4 ) ); for ( int i = 0; i != n; ++i ) put16( b, any_handle() ); if ( rng.chance( 5 ) ) b.push_back( 1 ); break; }
        case 8: case 9: {
            b.push_back( k == 8 ? 0x12 : 0x52 );
            const std::uint16_t h = rng.chance( 30 ) ? handle_of_kind( gatt::a_cccd ) : rng.chance( 60 ) ? handle_of_kind( gatt::a_value ) : any_handle();
            put16( b, h );
            const bytes v = value_for( h, false );
            b.insert( b.end(), v.begin(), v.end() );
            break; }
        case 10: {
            b.push_back( 0x16 );
            const std::uint16_t h = rng.chance( 75 ) ? handle_of_kind( gatt::a_value ) : rng.chance( 40 ) ? handle_of_kind( gatt::a_cccd ) : any_handle();
            put16( b, h );
            static const std::uint16_t offs[] = { 0, 0, 0, 1, 2, 4, 7, 18, 20, 30, 48, 49, 64, 100 };
            put16( b, offs[ rng.below( 14 ) ] );
            const bytes v = value_for( h, true );
            b.insert( b.end(), v.begin(), v.end() );
            break; }
        case 11: { b.push_back( 0x18 ); b.push_back( rng.chance( 60 ) ? 1 : rng.chance( 85 ) ? 0 : rng.byte() ); if ( rng.chance( 4 ) ) b.push_back( 0 ); break; }
        case 12: { b.push_back( 0x1e ); if ( rng.chance( 15 ) ) b.push_back( rng.byte() ); break; }
        default: {
            const unsigned x = static_cast< unsigned >( rng.below( 100 ) );
            static const std::uint8_t known[] = { 0x01, 0x02, 0x03, 0x04, 0x06, 0x08, 0x0a, 0x0c, 0x0e, 0x10, 0x12, 0x16, 0x18, 0x1b, 0x1d, 0x1e, 0x52, 0xd2, 0x20, 0x41, 0x7f, 0xff };
            b.push_back( x < 60 ? known[ rng.below( sizeof known ) ] : rng.byte() );
            const std::size_t n = static_cast< std::size_t >( rng.chance( 70 ) ? rng.range( 0, 8 ) : rng.range( 0, cfg.max_mtu + 2 ) );
            for ( std::size_t i = 0; i != n; ++i ) b.push_back( rng.chance( 40 ) ? static_cast< std::uint8_t >( cfg.attrs[ rng.below( cfg.n_attrs ) ].handle ) : rng.byte() );
            break; }
        }
        // boundary lengths: an otherwise well formed request that is a few bytes too short or too long
        if ( k < 13 && rng.chance( 8 ) )
        {
            if ( rng.chance( 65 ) ) { const std::size_t cut = static_cast< std::size_t >( rng.range( 1, 3 ) ); b.resize( b.size() > cut ? b.size() - cut : 1 ); }
            else { const int add = static_cast< int >( rng.range( 1, 2 ) ); for ( int i = 0; i != add; ++i ) b.push_back( rng.byte() ); }
        }
        return b;
    }
};

struct gatt_harness : sim::Harness
{
    const char* name() const override { return "gatt_sim"; }
    std::vector< std::string > properties() const override { return { "C01", "C02", "C03", "C05", "C06", "C07", "C08", "C09", "C10", "C11" }; }
    std::string nontrivial_rule( const std::string& ) const override
    {
        return "seeded plans over generated server configurations (see gen/gen_configs.py): 1-3 clients send valid, boundary and hostile ATT PDUs and run complete discovery procedures, "
               "the application changes values and requests notifications/indications, the link polls for server initiated PDUs with varying buffer sizes; faults: disconnect/reconnect (same or new "
               "connection object), link security transitions, injected handler errors; every response is compared with a reference model (handle table, value store, permissions, CCCDs, write queue, MTU, "
               "pending notifications), all stores are compared after every op; non-trivial = >=3 requests with at least one success and one error response; distinct = distinct trace hashes";
    }
    std::vector< std::string > real_components() const override
    {
        return { "bluetoe/server.hpp and everything it instantiates (service, characteristic, characteristic_value, attribute_handle, write_queue, filter, encryption, "
                 "client_characteristic_configuration, find_notification_data, notification_queue, link_state)" };
    }
    std::vector< std::string > stub_components() const override { return { "link layer (notification callback as in link_layer::queue_lcap_notification, for each live connection)", "L2CAP (buffer sizes as l2cap.hpp chooses them)", "clients, application" }; }
    bool memory_safety_property( const std::string& p ) const override { return p == "C01"; }
    std::uint64_t default_runs( const std::string&, bool thorough ) const override { return thorough ? 1500000 : 40000; }
    std::vector< std::string > op_names() const override { return { "request", "poll", "app_request", "app_set", "disconnect", "security", "fail_next", "discover" }; }

    sim::Plan generate( std::uint64_t seed, const std::string& property, bool thorough ) const override
    {
        sim::Rng rng( seed );
        sim::Plan p;
        p.harness = name(); p.property = property; p.seed = seed;
        p.config = static_cast< int >( rng.below( n_gatt_configs ) );
        const config_desc& cfg = gatt_descs[ p.config ]();
        crafter cr{ cfg, rng };
        int focus = static_cast< int >( rng.below( 7 ) );
        unsigned w[ gatt::op_count ] = { 30, 4, 3, 3, 2, 3, 1, 2 };
        unsigned clients = static_cast< unsigned >( rng.range( 1, 3 ) );
        if ( property == "C01" ) { if ( rng.chance( 60 ) ) focus = 6; }
        else if ( property == "C02" || property == "C03" ) { if ( rng.chance( 70 ) ) focus = 1; w[ gatt::op_discover ] = 12; }
        else if ( property == "C05" ) { w[ gatt::op_security ] = 10; w[ gatt::op_app_request ] = 5; w[ gatt::op_poll ] = 7; if ( rng.chance( 60 ) ) focus = static_cast< int >( rng.range( 2, 4 ) ); }
        else if ( property == "C06" ) { if ( rng.chance( 70 ) ) focus = 2; w[ gatt::op_app_set ] = 6; w[ gatt::op_fail_next ] = 3; }
        else if ( property == "C07" ) { if ( rng.chance( 80 ) ) focus = 3; clients = static_cast< unsigned >( rng.range( 2, 3 ) ); w[ gatt::op_disconnect ] = 5; w[ gatt::op_security ] = 4; }
        else if ( property == "C08" ) { if ( rng.chance( 70 ) ) focus = 5; w[ gatt::op_app_request ] = 6; w[ gatt::op_poll ] = 8; }
        else if ( property == "C09" ) { if ( rng.chance( 80 ) ) focus = 4; clients = static_cast< unsigned >( rng.range( 2, 3 ) ); w[ gatt::op_disconnect ] = 3; }
        else if ( property == "C10" || property == "C11" ) { if ( rng.chance( 80 ) ) focus = 4; w[ gatt::op_app_request ] = 14; w[ gatt::op_poll ] = 16; w[ gatt::op_app_set ] = 5; w[ gatt::op_security ] = 2; }
        // swarm: some runs switch fault kinds off entirely
        if ( rng.chance( 30 ) ) w[ gatt::op_disconnect ] = 0;
        if ( rng.chance( 30 ) ) w[ gatt::op_security ] = 0;
        if ( rng.chance( 50 ) ) w[ gatt::op_fail_next ] = 0;
        p.knobs[ "clients" ] = clients;
        unsigned total = 0;
        for ( auto x : w ) total += x;
        const unsigned n_ops = static_cast< unsigned >( rng.range( 4, thorough ? 150 : 60 ) );
        // most runs start on an encrypted link when the focus needs to get past the security checks
        if ( rng.chance( 40 ) )
            for ( unsigned c = 0; c != clients; ++c ) p.ops.push_back( sim::Op( gatt::op_security, { static_cast< std::int64_t >( c ), rng.range( 1, 3 ) } ) );
        // the family "a request the queue can never hold": one client, with a large MTU, prepares more than the whole shared queue takes
        // (refused, nothing is queued), then another client prepares a few bytes - more of the same and the rest of the plan follow
        if ( property == "C07" && clients >= 2 && cfg.queue > 0 && cfg.max_mtu - 5 + 4 > cfg.queue && rng.chance( 25 ) )
        {
            std::vector< std::uint16_t > writable;
            for ( std::size_t i = 0; i != cfg.n_chars; ++i ) if ( cfg.chars[ i ].writable ) writable.push_back( cfg.chars[ i ].value_handle );
            if ( !writable.empty() )
            {
                const std::int64_t a = static_cast< std::int64_t >( rng.below( clients ) ), b = ( a + 1 ) % clients;
                for ( std::int64_t c : { a, b } ) p.ops.push_back( sim::Op( gatt::op_security, { c, 2 } ) );
                bytes mtu{ 0x02 }; put16( mtu, 247 );
                p.ops.push_back( sim::Op( gatt::op_request, { a }, mtu ) );
                const std::uint16_t h = writable[ rng.below( writable.size() ) ];
                bytes big{ 0x16 }; put16( big, h ); put16( big, 0 );
                const std::size_t len = static_cast< std::size_t >( cfg.max_mtu - 5 - ( rng.chance( 70 ) ? 0 : static_cast< int >( rng.below( 4 ) ) ) );
                for ( std::size_t i = 0; i != len; ++i ) big.push_back( rng.byte() );
                p.ops.push_back( sim::Op( gatt::op_request, { a }, big ) );
                bytes small{ 0x16 }; put16( small, writable[ rng.below( writable.size() ) ] ); put16( small, 0 ); small.push_back( rng.byte() );
                p.ops.push_back( sim::Op( gatt::op_request, { b }, small ) );
                if ( rng.chance( 50 ) ) p.ops.push_back( sim::Op( gatt::op_request, { b }, bytes{ 0x18, 0x01 } ) );
            }
        }
        for ( unsigned i = 0; i != n_ops; ++i )
        {
            unsigned r = static_cast< unsigned >( rng.below( total ) ), k = 0;
            while ( r >= w[ k ] ) { r -= w[ k ]; ++k; }
            const std::int64_t c = static_cast< std::int64_t >( rng.below( clients ) );
            switch ( k )
            {
            case gatt::op_request: p.ops.push_back( sim::Op( k, { c }, cr.request( focus ) ) ); break;
            case gatt::op_poll: p.ops.push_back( sim::Op( k, { c, rng.chance( 70 ) ? 0 : rng.range( 1, 400 ) } ) ); break;
            case gatt::op_app_request: p.ops.push_back( sim::Op( k, { rng.range( 0, 15 ), rng.range( 0, 1 ), rng.range( 0, 1 ) } ) ); break;
            case gatt::op_app_set: p.ops.push_back( sim::Op( k, { rng.range( 0, 15 ), rng.range( 0, 250 ) } ) ); break;
            case gatt::op_disconnect: p.ops.push_back( sim::Op( k, { c, rng.range( 0, 1 ) } ) ); break;
            case gatt::op_security: p.ops.push_back( sim::Op( k, { c, rng.range( 0, 3 ) } ) ); break;
            case gatt::op_fail_next: p.ops.push_back( sim::Op( k, { rng.range( 0, 7 ), rng.range( 0, 1 ), rng.range( 0, 3 ) } ) ); break;
            case gatt::op_discover: {
                const std::int64_t kind = rng.range( 0, 3 );
                auto rg = rng.chance( 50 ) ? std::make_pair< std::uint16_t, std::uint16_t >( 1, 0xffff ) : cr.any_range();
                bytes t = kind == 3 ? cr.service_uuid() : cr.any_type();
                p.ops.push_back( sim::Op( k, { c, kind, rg.first, rg.second }, t ) );
                break; }
            }
        }
        return p;
    }

    void execute( const sim::Plan& plan, sim::Result& res ) const override
    {
        const int c = ( ( plan.config % n_gatt_configs ) + n_gatt_configs ) % n_gatt_configs;
        res.note( "config %d clients %lld", c, (long long)plan.knob( "clients", 2 ) );
        gatt_runners[ c ]( plan, res );
    }

    std::vector< sim::Op > simplify( const sim::Plan& plan, std::size_t i ) const override
    {
        std::vector< sim::Op > r;
        const sim::Op& op = plan.ops[ i ];
        if ( op.kind == gatt::op_request && op.bytes.size() > 1 )
        {
            // shorter payloads
            sim::Op c = op; c.bytes.pop_back(); r.push_back( c );
        }
        if ( op.kind == gatt::op_discover && ( op.arg( 2 ) != 1 || op.arg( 3 ) != 0xffff ) ) { sim::Op c = op; c.a[ 2 ] = 1; c.a[ 3 ] = 0xffff; r.push_back( c ); }
        if ( op.arg( 0 ) > 0 ) { sim::Op c = op; c.a[ 0 ] = 0; r.push_back( c ); }
        return r;
    }
};

}

int main( int argc, char** argv )
{
    gatt_harness h;
    return sim::sim_main( argc, argv, h );
}
