// nrf_front - the real nRF52 radio front end (bluetoe/bindings/nordic/nrf52/include/bluetoe/nrf52.hpp: schedule_advertisment,
// schedule_connection_event, run(), radio_interrupt_handler(), is_valid_scan_request()) on a simulated `Hardware`.
//
// nrf52_radio_base is written against a `Hardware` template parameter ("abstraction of the hardware that can be replaced during
// tests"); `hw< Crypto >` below implements that interface: it records what the front end configures (channel, buffers, timers,
// encryption) and lets the simulated world fire the radio interrupt with the reception result it chooses.  nrf52.cpp (the register
// level implementation of the same interface) is not compiled.
#ifndef VERIF_NRF_FRONT_HPP
#define VERIF_NRF_FRONT_HPP

#include <iterator>
#include <array>
#include <algorithm>
#include <cstring>
#include <tuple>
#include <vector>
#include <cstdlib>
#include <new>

#include <bluetoe/nrf52.hpp>

namespace nrf_front {

using bluetoe::link_layer::read_buffer;
using bluetoe::link_layer::write_buffer;
using bluetoe::link_layer::delta_time;

struct hw_state
{
    void            ( *isr )( void* ) = nullptr;
    void*           that = nullptr;
    unsigned        channel = 0;
    write_buffer    tx{ nullptr, 0 };
    bool            tx_configured = false, tx_final = false;
    read_buffer     rx{ nullptr, 0 };
    bool            rx_configured = false;
    std::tuple< bool, bool, bool > rx_result{ false, false, false };
    std::uint32_t   now_us = 0;                 // time since the last anchor
    bool            adv_timer = false, evt_timer = false;
    std::uint32_t   adv_when_us = 0, adv_timeout_us = 0, evt_begin_us = 0, evt_end_us = 0;
    unsigned        stop_radio_calls = 0, anchors_stored = 0;
    int             last_anchor_offset = 0;
    bool            refuse_stop = false;
    unsigned        phy_rx = 1, phy_tx = 1;
    std::uint32_t   access_address = 0, crc_init = 0;
    // crypto
    std::uint64_t   rx_counter = 0, tx_counter = 0;
    bool            rx_enc = false, tx_enc = false, key_set = false;
    std::array< std::uint8_t, 16 > key{};
    std::uint8_t*   encrypted_area = nullptr;
    bool            resolving_invalid = false;
};

inline hw_state g_hw;

template < bool Crypto >
struct hw
{
    static int pdu_gap_required_by_encryption() { return Crypto ? 1 : 0; }

    static void init( void ( *isr )( void* ), void* that ) { g_hw.isr = isr; g_hw.that = that; }
    static void init( std::uint8_t* encrypted_area, void ( *isr )( void* ), void* that ) { g_hw.encrypted_area = encrypted_area; g_hw.isr = isr; g_hw.that = that; }

    static void configure_radio_channel( unsigned channel ) { g_hw.channel = channel; }
    static void configure_transmit_train( const write_buffer& d ) { g_hw.tx = d; g_hw.tx_configured = true; g_hw.tx_final = false; }
    static void configure_final_transmit( const write_buffer& d ) { g_hw.tx = d; g_hw.tx_configured = true; g_hw.tx_final = true; }
    static void configure_receive_train( const read_buffer& b ) { g_hw.rx = b; g_hw.rx_configured = true; }
    static void stop_radio() { ++g_hw.stop_radio_calls; g_hw.adv_timer = g_hw.evt_timer = false; }
    static void store_timer_anchor( int offset_us ) { ++g_hw.anchors_stored; g_hw.last_anchor_offset = offset_us; g_hw.now_us = 0; }
    static std::tuple< bool, bool, bool > received_pdu() { return g_hw.rx_result; }
    static std::uint32_t now() { return g_hw.now_us; }
    static std::pair< bool, delta_time > can_stop_connection_event_timer( std::uint32_t )
    {
        if ( g_hw.refuse_stop || !g_hw.evt_timer ) return { false, delta_time() };
        g_hw.evt_timer = false;
        return { true, delta_time( g_hw.now_us ) };
    }
    static void setup_identity_resolving( const std::uint8_t* ) {}
    static bool resolving_address_invalid() { return g_hw.resolving_invalid; }
    static void set_phy( bluetoe::link_layer::phy_ll_encoding::phy_ll_encoding_t r, bluetoe::link_layer::phy_ll_encoding::phy_ll_encoding_t t ) { g_hw.phy_rx = r; g_hw.phy_tx = t; }
    static bool schedule_advertisment_event_timer( delta_time when, std::uint32_t timeout_us, std::uint32_t )
    {
        g_hw.adv_timer = true; g_hw.adv_when_us = when.usec(); g_hw.adv_timeout_us = timeout_us;
        return false;
    }
    static void schedule_connection_event_timer( std::uint32_t begin_us, std::uint32_t end_us, std::uint32_t )
    {
        g_hw.evt_timer = true; g_hw.evt_begin_us = begin_us; g_hw.evt_end_us = end_us;
    }
    static bool schedule_user_timer( void ( * )( void* ), std::uint32_t, std::uint32_t ) { return false; }
    static bool stop_user_timer() { return false; }
    static void stop_timeout_timer() {}
    static std::uint32_t static_random_address_seed() { return 0x47110815; }
    static void set_access_address_and_crc_init( std::uint32_t aa, std::uint32_t crc ) { g_hw.access_address = aa; g_hw.crc_init = crc; }
    static bool user_timer_anchor_moved() { return false; }

    // crypto part of the interface
    static void configure_encryption( bool receive, bool transmit ) { g_hw.rx_enc = receive; g_hw.tx_enc = transmit; }
    static std::pair< std::uint64_t, std::uint32_t > setup_encryption( bluetoe::details::uint128_t key, std::uint64_t, std::uint32_t )
    {
        g_hw.key = key; g_hw.key_set = true; g_hw.rx_counter = g_hw.tx_counter = 0;
        return { 0x0123456789abcdefull, 0x89abcdefu };
    }
    static void increment_receive_packet_counter() { ++g_hw.rx_counter; }
    static void increment_transmit_packet_counter() { ++g_hw.tx_counter; }
    static void setup_identity_resolving_address( const std::uint8_t* ) {}
    static void set_identity_resolving_key( const bluetoe::details::identity_resolving_key_t& ) {}

    struct lock_guard { lock_guard() {} ~lock_guard() {} lock_guard( const lock_guard& ) = delete; lock_guard& operator=( const lock_guard& ) = delete; };
};

// the radio with a minimal set of link layer callbacks that record what the front end reports
template < std::size_t Tx, std::size_t Rx, bool Crypto >
struct front : bluetoe::nrf52_details::nrf52_radio< Tx, Rx, Crypto, front< Tx, Rx, Crypto >, hw< Crypto >, bluetoe::nrf::sleep_clock_crystal_oscillator >
{
    using radio_t = bluetoe::nrf52_details::nrf52_radio< Tx, Rx, Crypto, front< Tx, Rx, Crypto >, hw< Crypto >, bluetoe::nrf::sleep_clock_crystal_oscillator >;

    // ---- link layer callbacks
    unsigned n_adv_received = 0, n_adv_timeout = 0, n_timeout = 0, n_end_event = 0;
    std::vector< std::uint8_t > last_adv_received;
    bluetoe::link_layer::connection_event_events last_events;
    void adv_received( const read_buffer& b ) { ++n_adv_received; last_adv_received.assign( b.buffer, b.buffer + b.size ); }
    void adv_timeout() { ++n_adv_timeout; }
    void timeout() { ++n_timeout; }
    void end_event( bluetoe::link_layer::connection_event_events e ) { ++n_end_event; last_events = e; }
    void try_event_cancelation() {}
    void user_timer( bool ) {}

    // ---- the scan request filter: answers as the world says and records the address it was asked for
    mutable std::vector< std::pair< std::vector< std::uint8_t >, bool > > filter_queries;
    bool filter_answer = true;
    bool is_scan_request_in_filter( const bluetoe::link_layer::device_address& a ) const
    {
        filter_queries.push_back( { std::vector< std::uint8_t >( a.begin(), a.end() ), a.is_random() } );
        return filter_answer;
    }

    void fire_isr() { g_hw.isr( g_hw.that ); }
    read_buffer isr_allocate_receive_buffer() const { return this->allocate_receive_buffer(); }
};

// nrf52_radio_base leaves its flags to zero initialisation: on the device the link layer is an object of static storage duration.
// The harness gives every world a fresh object in zeroed memory.
template < class T >
struct static_like
{
    T* p;
    static_like() { void* m = std::calloc( 1, sizeof( T ) ); p = new ( m ) T; }
    ~static_like() { p->~T(); std::free( p ); }
    static_like( const static_like& ) = delete;
    static_like& operator=( const static_like& ) = delete;
    T* operator->() { return p; }
    T& operator*() { return *p; }
};

inline void reset_hardware()
{
    g_hw = hw_state();
    nrf_shim::install();
    nrf_shim::wfi = nullptr;
}

}

#endif
