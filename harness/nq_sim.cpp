// nq_sim - outgoing notification queue as a fair priority queue (C12)
//
// Parties: application (queue_notification / queue_indication), link layer
// (dequeue), client (confirmation), disconnect (clear).  The plan fixes the
// interleaving of the four op streams.  Real code: bluetoe::notification_queue
// for a set of priority partitions.  Nothing is stubbed.
#include <iterator>
#include <array>
#include <algorithm>
#include <cstring>
#include <tuple>
#include <type_traits>
#include <set>

#include <bluetoe/notification_queue.hpp>

#include "../sim/sim.hpp"

namespace {

struct empty_mixin {};

template < int... S >
using queue_t = bluetoe::notification_queue< std::tuple< std::integral_constant< int, S >... >, empty_mixin >;

enum { op_notify, op_indicate, op_dequeue, op_confirm, op_clear, op_count };

using entry_type = bluetoe::details::notification_queue_entry_type;

struct model
{
    std::vector< int >  level_of;      // per characteristic index
    std::vector< int >  level_size;
    std::vector< bool > pend_n, pend_i;
    bool                outstanding = false;
    std::size_t         outstanding_index = 0;
    // fairness: served[ j ][ i ] = how often i was served while j was continuously eligible and not served
    std::vector< std::vector< unsigned > > served;

    explicit model( const std::vector< int >& sizes ) : level_size( sizes )
    {
        for ( std::size_t l = 0; l != sizes.size(); ++l )
            for ( int k = 0; k != sizes[ l ]; ++k )
                level_of.push_back( static_cast< int >( l ) );
        pend_n.assign( level_of.size(), false );
        pend_i.assign( level_of.size(), false );
        served.assign( level_of.size(), std::vector< unsigned >( level_of.size(), 0 ) );
    }
    std::size_t size() const { return level_of.size(); }
    bool eligible_n( std::size_t j ) const { return pend_n[ j ]; }
    bool eligible_i( std::size_t j ) const { return pend_i[ j ] && !outstanding; }
    bool eligible( std::size_t j ) const { return eligible_n( j ) || eligible_i( j ); }
    int  best_level() const
    {
        int best = -1;
        for ( std::size_t j = 0; j != size(); ++j )
            if ( eligible( j ) && ( best == -1 || level_of[ j ] < best ) ) best = level_of[ j ];
        return best;
    }
    void refresh()
    {
        for ( std::size_t j = 0; j != size(); ++j )
            if ( !eligible( j ) ) std::fill( served[ j ].begin(), served[ j ].end(), 0u );
    }
    std::size_t pending_count() const
    {
        std::size_t n = 0;
        for ( std::size_t j = 0; j != size(); ++j ) n += ( pend_n[ j ] ? 1 : 0 ) + ( pend_i[ j ] ? 1 : 0 );
        return n;
    }
};

std::string partition_name( const std::vector< int >& sizes )
{
    std::string s = "(";
    for ( std::size_t i = 0; i != sizes.size(); ++i ) s += ( i ? "," : "" ) + std::to_string( sizes[ i ] );
    return s + ")";
}

template < class Q >
void run( Q& q, const std::vector< int >& sizes, const sim::Plan& plan, sim::Result& res )
{
    model m( sizes );
    const std::string part = partition_name( sizes );
    const std::size_t N = m.size();
    bool blocked_indication_overtaken = false, lower_level_served_while_higher_blocked = false, both_kinds_same_index = false;
    unsigned dequeued = 0;

    auto lvl1 = [&]( std::size_t j ) { return m.level_size[ static_cast< std::size_t >( m.level_of[ j ] ) ] == 1 ? "single" : "multi"; };

    auto do_dequeue = [&]( long idx ) -> bool {
        const auto got = q.dequeue_indication_or_confirmation();
        const int best = m.best_level();
        if ( got.first == entry_type::empty )
        {
            res.note( "dequeue -> empty" );
            if ( best != -1 )
                res.violate( "C12", "empty-but-pending", std::string( "empty-but-pending " ) + part, idx,
                             "dequeue returned empty although %zu requests are pending and one in level %d is eligible (partition %s)", m.pending_count(), best, part.c_str() );
            return false;
        }
        const std::size_t j = got.second;
        const bool ind = got.first == entry_type::indication;
        res.note( "dequeue -> %s %zu", ind ? "ind" : "not", j );
        if ( j >= N )
        {
            res.violate( "C12", "index-range", "index-range " + part, idx, "dequeue returned index %zu of %zu", j, N );
            return true;
        }
        ++dequeued;
        if ( ind ? !m.pend_i[ j ] : !m.pend_n[ j ] )
        {
            res.violate( "C12", "not-pending", std::string( "not-pending " ) + lvl1( j ), idx, "dequeue returned %s %zu which is not pending (never requested, or dequeued twice); partition %s",
                         ind ? "indication" : "notification", j, part.c_str() );
        }
        else if ( ind && m.outstanding )
        {
            res.violate( "C12", "indication-while-outstanding", "indication-while-outstanding", idx, "indication %zu dequeued while indication %zu awaits its confirmation", j, m.outstanding_index );
        }
        else
        {
            if ( m.level_of[ j ] != best )
                res.violate( "C12", "priority", "priority " + part, idx, "dequeued %s %zu from level %d although level %d has an eligible request (partition %s)",
                             ind ? "indication" : "notification", j, m.level_of[ j ], best, part.c_str() );
            // fairness between the characteristics of one level
            for ( std::size_t w = 0; w != N; ++w )
            {
                if ( w == j || m.level_of[ w ] != m.level_of[ j ] || !m.eligible( w ) ) continue;
                if ( ++m.served[ w ][ j ] > 1 )
                    res.violate( "C12", "round", "round " + part, idx, "characteristic %zu served twice while characteristic %zu of the same level stayed pending and unserved (partition %s)",
                                 j, w, part.c_str() );
            }
            std::fill( m.served[ j ].begin(), m.served[ j ].end(), 0u );
        }
        // probes
        for ( std::size_t w = 0; w != N; ++w )
        {
            if ( m.pend_i[ w ] && m.outstanding && m.level_of[ w ] < m.level_of[ j ] ) lower_level_served_while_higher_blocked = true;
            if ( m.pend_i[ w ] && m.outstanding && w != j ) blocked_indication_overtaken = true;
        }
        if ( ind ) { m.pend_i[ j ] = false; m.outstanding = true; m.outstanding_index = j; }
        else m.pend_n[ j ] = false;
        m.refresh();
        return true;
    };

    long idx = -1;
    for ( const auto& op : plan.ops )
    {
        ++idx;
        const std::size_t j = static_cast< std::size_t >( ( ( op.arg( 0 ) % static_cast< std::int64_t >( N ) ) + static_cast< std::int64_t >( N ) ) % static_cast< std::int64_t >( N ) );
        switch ( ( ( op.kind % op_count ) + op_count ) % op_count )
        {
        case op_notify: {
            const bool expect = !m.pend_n[ j ];
            const bool got = q.queue_notification( j );
            res.note( "notify %zu -> %d", j, got );
            if ( m.pend_i[ j ] ) both_kinds_same_index = true;
            if ( got != expect )
                res.violate( "C12", "newly-queued", std::string( "newly-queued notification " ) + lvl1( j ) + ( m.pend_i[ j ] ? " indication-pending" : "" ), idx,
                             "queue_notification(%zu) returned %d, but the notification was %spending (indication pending: %d, partition %s)", j, got, expect ? "not " : "", (int)m.pend_i[ j ], part.c_str() );
            m.pend_n[ j ] = true;
            break; }
        case op_indicate: {
            const bool expect = !m.pend_i[ j ];
            const bool got = q.queue_indication( j );
            res.note( "indicate %zu -> %d", j, got );
            if ( m.pend_n[ j ] ) both_kinds_same_index = true;
            if ( got != expect )
                res.violate( "C12", "newly-queued", std::string( "newly-queued indication " ) + lvl1( j ) + ( m.pend_n[ j ] ? " notification-pending" : "" ), idx,
                             "queue_indication(%zu) returned %d, but the indication was %spending (notification pending: %d, partition %s)", j, got, expect ? "not " : "", (int)m.pend_n[ j ], part.c_str() );
            m.pend_i[ j ] = true;
            break; }
        case op_dequeue:
            do_dequeue( idx );
            break;
        case op_confirm:
            q.indication_confirmed();
            res.note( "confirm" );
            m.outstanding = false;
            break;
        case op_clear:
            q.clear_indications_and_confirmations();
            res.note( "clear" );
            m.outstanding = false;
            std::fill( m.pend_n.begin(), m.pend_n.end(), false );
            std::fill( m.pend_i.begin(), m.pend_i.end(), false );
            m.refresh();
            res.fault( "disconnect_clear" );
            break;
        }
        m.refresh();
    }
    // faults have stopped: with the client confirming every indication, everything pending is dequeued exactly once within a bounded number of steps
    const std::size_t bound = 2 * m.pending_count() + 2;
    std::size_t steps = 0;
    while ( m.pending_count() != 0 && steps < bound )
    {
        ++steps;
        if ( !do_dequeue( static_cast< long >( plan.ops.size() ) ) ) { q.indication_confirmed(); m.outstanding = false; res.note( "drain confirm" ); }
    }
    if ( m.pending_count() != 0 )
        res.violate( "C12", "drain", "drain " + part, static_cast< long >( plan.ops.size() ), "%zu requests still pending after %zu drain steps (partition %s)", m.pending_count(), steps, part.c_str() );
    {
        q.indication_confirmed();
        const auto got = q.dequeue_indication_or_confirmation();
        if ( got.first != entry_type::empty )
            res.violate( "C12", "not-pending", "not-pending after drain", static_cast< long >( plan.ops.size() ), "queue returns %zu after everything pending was dequeued", got.second );
    }

    if ( blocked_indication_overtaken ) res.probe( "notification_dequeued_while_indication_blocked" );
    if ( lower_level_served_while_higher_blocked ) res.probe( "lower_level_served_while_higher_level_indication_blocked" );
    if ( both_kinds_same_index ) res.probe( "both_kinds_pending_for_one_characteristic" );
    res.nontrivial = dequeued >= 3;
}

const std::vector< std::vector< int > > partitions = {
    { 1 }, { 2 }, { 3 }, { 4 }, { 5 }, { 8 }, { 9 }, { 17 }, { 1, 1 }, { 1, 4 }, { 4, 1 }, { 3, 1, 2 }, { 4, 4, 4 }, { 1, 1, 1 }, { 2, 5, 1 }, { 5, 4 } };

struct nq_harness : sim::Harness
{
    const char* name() const override { return "nq_sim"; }
    std::vector< std::string > properties() const override { return { "C12" }; }
    std::string nontrivial_rule( const std::string& ) const override
    {
        return "seeded interleavings of application (queue_notification/queue_indication), link layer (dequeue), client (confirm) and disconnect (clear) op streams "
               "against notification_queue for 16 priority partitions (levels of size 1 and >1), followed by a fault-free drain phase; "
               "non-trivial = at least 3 successful dequeues; distinct = distinct trace hashes";
    }
    std::vector< std::string > real_components() const override { return { "bluetoe/notification_queue.hpp" }; }
    std::vector< std::string > stub_components() const override { return {}; }
    std::uint64_t default_runs( const std::string&, bool thorough ) const override { return thorough ? 3000000 : 80000; }
    std::vector< std::string > op_names() const override { return { "notify", "indicate", "dequeue", "confirm", "clear" }; }

    sim::Plan generate( std::uint64_t seed, const std::string& property, bool thorough ) const override
    {
        sim::Rng rng( seed );
        sim::Plan p;
        p.harness = name(); p.property = property; p.seed = seed;
        p.config = static_cast< int >( rng.below( partitions.size() ) );
        const unsigned n_ops = static_cast< unsigned >( rng.range( 3, thorough ? 120 : 50 ) );
        unsigned w[ op_count ];
        w[ op_notify ]   = static_cast< unsigned >( rng.range( 1, 8 ) );
        w[ op_indicate ] = static_cast< unsigned >( rng.range( 0, 8 ) );
        w[ op_dequeue ]  = static_cast< unsigned >( rng.range( 1, 10 ) );
        w[ op_confirm ]  = static_cast< unsigned >( rng.range( 0, 6 ) );
        w[ op_clear ]    = rng.chance( 25 ) ? 1 : 0;
        unsigned total = 0;
        for ( auto x : w ) total += x;
        // a hot subset of characteristics makes repeated requests for the same entry likely
        const unsigned hot = static_cast< unsigned >( rng.range( 1, 17 ) );
        for ( unsigned i = 0; i != n_ops; ++i )
        {
            unsigned r = static_cast< unsigned >( rng.below( total ) ), k = 0;
            while ( r >= w[ k ] ) { r -= w[ k ]; ++k; }
            p.ops.push_back( sim::Op( static_cast< int >( k ), { static_cast< std::int64_t >( rng.below( hot ) ) } ) );
        }
        return p;
    }

    void execute( const sim::Plan& plan, sim::Result& res ) const override
    {
        const std::size_t c = static_cast< std::size_t >( ( ( plan.config % 16 ) + 16 ) % 16 );
        res.note( "partition %s", partition_name( partitions[ c ] ).c_str() );
        switch ( c )
        {
        case 0:  { queue_t< 1 > q;        run( q, partitions[ c ], plan, res ); break; }
        case 1:  { queue_t< 2 > q;        run( q, partitions[ c ], plan, res ); break; }
        case 2:  { queue_t< 3 > q;        run( q, partitions[ c ], plan, res ); break; }
        case 3:  { queue_t< 4 > q;        run( q, partitions[ c ], plan, res ); break; }
        case 4:  { queue_t< 5 > q;        run( q, partitions[ c ], plan, res ); break; }
        case 5:  { queue_t< 8 > q;        run( q, partitions[ c ], plan, res ); break; }
        case 6:  { queue_t< 9 > q;        run( q, partitions[ c ], plan, res ); break; }
        case 7:  { queue_t< 17 > q;       run( q, partitions[ c ], plan, res ); break; }
        case 8:  { queue_t< 1, 1 > q;     run( q, partitions[ c ], plan, res ); break; }
        case 9:  { queue_t< 1, 4 > q;     run( q, partitions[ c ], plan, res ); break; }
        case 10: { queue_t< 4, 1 > q;     run( q, partitions[ c ], plan, res ); break; }
        case 11: { queue_t< 3, 1, 2 > q;  run( q, partitions[ c ], plan, res ); break; }
        case 12: { queue_t< 4, 4, 4 > q;  run( q, partitions[ c ], plan, res ); break; }
        case 13: { queue_t< 1, 1, 1 > q;  run( q, partitions[ c ], plan, res ); break; }
        case 14: { queue_t< 2, 5, 1 > q;  run( q, partitions[ c ], plan, res ); break; }
        case 15: { queue_t< 5, 4 > q;     run( q, partitions[ c ], plan, res ); break; }
        }
    }

    std::vector< sim::Op > simplify( const sim::Plan& plan, std::size_t i ) const override
    {
        std::vector< sim::Op > r;
        const sim::Op& op = plan.ops[ i ];
        if ( op.arg( 0 ) > 0 ) { sim::Op c = op; c.a[ 0 ] = op.arg( 0 ) - 1; r.push_back( c ); }
        return r;
    }
};

}

int main( int argc, char** argv )
{
    nq_harness h;
    return sim::sim_main( argc, argv, h );
}
