// nrf_bridge - the second radio of stack_sim: the real nRF52 radio front end (nrf52.hpp: schedule_advertisment(), schedule_connection_event(),
// disarm_connection_event(), run(), radio_interrupt_handler(), is_valid_scan_request()) between the link layer and the simulated world.
//
// The front end is written against a `Hardware` template parameter.  `bridge_hw` implements it on the radio_state the world works with
// (harness/sim_radio.hpp): timers become the pending request the world serves, `now()` is the world's clock relative to T0, the radio
// interrupt is fired by the world through the same type erased calls it uses for sim_radio.  __WFI() (shim/nrf.h) is "advance the
// simulation to the next radio activity".  The front end is built with nrf::leave_run_on_interrupt, so that one run() is one activity;
// the callbacks into the link layer are made by the front end's own run(), entered from the world at the moment the sim_radio would
// have made them (after the interrupts have set the flags run() looks at).
//
// nrf52.cpp (registers, PPI, timers, CCM) is not compiled; what it would report follows received_pdu() of the radio without encryption:
// a CRC error is no reception at all.
#ifndef VERIF_NRF_BRIDGE_HPP
#define VERIF_NRF_BRIDGE_HPP

#include "sim_radio.hpp"

#include <tuple>
#include <cstdlib>
#include <new>
#include <type_traits>

#include <bluetoe/nrf52.hpp>

namespace stack {

struct bridge_state
{
    void            ( *isr )( void* ) = nullptr;
    void*           that = nullptr;
    write_buffer    tx{ nullptr, 0 };
    bool            tx_configured = false;
    read_buffer     rx{ nullptr, 0 };
    std::tuple< bool, bool, bool > rx_result{ false, false, false };
    std::uint32_t   margin_us = 0;
    std::uint64_t   rx_counter = 0, tx_counter = 0;
    std::uint8_t*   encrypted_area = nullptr;
    // the world sees PDUs without the gap the encryption capable radio keeps between header and body
    std::uint8_t    adv_copy[ 48 ], rsp_copy[ 48 ], response_copy[ 48 ], adv_rx_scratch[ 64 ], evt_rx_scratch[ 272 ], evt_tx_scratch[ 272 ];
};

inline bridge_state g_bridge;

struct bridge_hw
{
    static radio_state& r() { return *g_current_radio; }

    static int pdu_gap_required_by_encryption() { return 0; }
    static void init( void ( *isr )( void* ), void* that ) { g_bridge = bridge_state(); g_bridge.isr = isr; g_bridge.that = that; }

    static void configure_radio_channel( unsigned channel ) { r().channel = channel; }
    static void configure_transmit_train( const write_buffer& d ) { g_bridge.tx = d; g_bridge.tx_configured = true; }
    static void configure_final_transmit( const write_buffer& d ) { g_bridge.tx = d; g_bridge.tx_configured = true; }
    static void configure_receive_train( const read_buffer& b ) { g_bridge.rx = b; }
    static void stop_radio() {}
    static void store_timer_anchor( int ) {}        // T0 is kept by the world (the contract of scheduled_radio says where it is)
    static std::tuple< bool, bool, bool > received_pdu() { return g_bridge.rx_result; }
    static std::uint32_t now() { return r().now_us > r().t0_us ? static_cast< std::uint32_t >( r().now_us - r().t0_us ) : 0; }
    static std::pair< bool, delta_time > can_stop_connection_event_timer( std::uint32_t safety_margin_us )
    {
        radio_state& s = r();
        if ( s.pending != radio_state::connection_event || s.refuse_disarm ) return { false, delta_time() };
        const std::int64_t start = s.t0_us + s.start_us;
        // the hardware refuses when the start of the oscillator (one more start up time ahead of the event) is closer than the margin
        if ( start - s.now_us <= 2 * static_cast< std::int64_t >( safety_margin_us ) ) return { false, delta_time() };
        s.pending = radio_state::nothing;
        ++s.disarmed;
        return { true, delta_time( now() + safety_margin_us ) };
    }
    static void setup_identity_resolving( const std::uint8_t* ) {}
    static bool resolving_address_invalid() { return false; }
    static void set_phy( bluetoe::link_layer::phy_ll_encoding::phy_ll_encoding_t rx, bluetoe::link_layer::phy_ll_encoding::phy_ll_encoding_t tx )
    {
        if ( rx != bluetoe::link_layer::phy_ll_encoding::le_unchanged_coding ) r().phy_rx = rx;
        if ( tx != bluetoe::link_layer::phy_ll_encoding::le_unchanged_coding ) r().phy_tx = tx;
    }
    static bool schedule_advertisment_event_timer( delta_time when, std::uint32_t, std::uint32_t )
    {
        radio_state& s = r();
        s.pending = radio_state::advertising; s.when_us = when.usec(); ++s.adv_schedule_seq;
        return false;
    }
    static void schedule_connection_event_timer( std::uint32_t, std::uint32_t, std::uint32_t )
    {
        radio_state& s = r();
        s.pending = radio_state::connection_event; s.too_late = false;
    }
    static bool schedule_user_timer( void ( * )( void* ), std::uint32_t, std::uint32_t ) { return false; }
    static bool stop_user_timer() { return false; }
    static void stop_timeout_timer() {}
    static std::uint32_t static_random_address_seed() { return 0x47110815; }
    static void set_access_address_and_crc_init( std::uint32_t aa, std::uint32_t crc ) { r().access_address = aa; r().crc_init = crc; }
    static bool user_timer_anchor_moved() { return false; }

    class lock_guard
    {
    public:
        lock_guard() { if ( g_current_radio ) ++g_current_radio->lock_depth; }
        ~lock_guard() { if ( g_current_radio ) --g_current_radio->lock_depth; }
        lock_guard( const lock_guard& ) = delete;
        lock_guard& operator=( const lock_guard& ) = delete;
    };
};

// the Hardware of the encryption capable radio: a gap byte in every PDU, encryption as a flag and a key per direction (no cipher: the air
// of the world decides from flags and keys of both sides whether a PDU can be decoded), packet counters counted
struct bridge_hw_crypto : bridge_hw
{
    static int pdu_gap_required_by_encryption() { return 1; }
    static void init( std::uint8_t* encrypted_area, void ( *isr )( void* ), void* that ) { g_bridge = bridge_state(); g_bridge.encrypted_area = encrypted_area; g_bridge.isr = isr; g_bridge.that = that; }
    static void configure_encryption( bool receive, bool transmit )
    {
        radio_state& s = r();
        if ( receive && !transmit ) ++s.rx_enc_starts;      // start_receive_encrypted()
        s.rx_enc = receive; s.tx_enc = transmit;
    }
    static std::pair< std::uint64_t, std::uint32_t > setup_encryption( bluetoe::details::uint128_t key, std::uint64_t, std::uint32_t )
    {
        radio_state& s = r();
        s.enc_key = key; s.key_set = true; ++s.enc_setups;
        g_bridge.rx_counter = g_bridge.tx_counter = 0;
        return { 0x0123456789abcdefull, 0x89abcdefu };
    }
    static void increment_receive_packet_counter() { ++g_bridge.rx_counter; }
    static void increment_transmit_packet_counter() { ++g_bridge.tx_counter; }
    static void setup_identity_resolving_address( const std::uint8_t* ) {}
    static void set_identity_resolving_key( const bluetoe::details::identity_resolving_key_t& ) {}
};

// makes the radio_state known before the front end's constructor runs
struct bridge_registrar : radio_state
{
    bridge_registrar() { g_current_radio = this; nrf_shim::install(); }
};

template < std::size_t TransmitSize, std::size_t ReceiveSize, typename CallBack, bool Crypto >
class nrf_bridge_radio_impl :
    public bridge_registrar,
    public bluetoe::nrf52_details::nrf52_radio< TransmitSize, ReceiveSize, Crypto, CallBack, typename std::conditional< Crypto, bridge_hw_crypto, bridge_hw >::type,
                                                bluetoe::nrf::sleep_clock_crystal_oscillator, bluetoe::nrf::leave_run_on_interrupt >
{
public:
    using front_t = bluetoe::nrf52_details::nrf52_radio< TransmitSize, ReceiveSize, Crypto, CallBack, typename std::conditional< Crypto, bridge_hw_crypto, bridge_hw >::type,
                                                         bluetoe::nrf::sleep_clock_crystal_oscillator, bluetoe::nrf::leave_run_on_interrupt >;
    static constexpr std::size_t gap = Crypto ? 1 : 0;

    nrf_bridge_radio_impl()
    {
        real_front = true;
        g_bridge.margin_us = front_t::connection_event_setup_time_us;
        nrf_shim::wfi = []() { if ( g_current_radio && g_current_radio->world_activity ) g_current_radio->world_activity( *g_current_radio ); };

        // ---- what the world does to the radio, translated into radio interrupts
        cb_adv_timeout = [ this ]() {
            fire();                                                         // the advertising PDU is out, the receiver is on
            g_bridge.rx_result = std::make_tuple( false, false, false );
            fire();                                                         // nothing (valid) arrived in time
            front_t::run();
        };
        front_adv_reception = [ this ]( const std::uint8_t* pdu, std::size_t size ) -> bool {
            fire();
            to_radio( pdu, size, g_bridge.rx );
            g_bridge.rx_result = std::make_tuple( true, true, true );
            g_bridge.tx_configured = false;
            fire();                                                         // the decision of the inter frame space
            const bool responded = g_bridge.tx_configured;
            if ( responded ) { front_response = from_radio( g_bridge.tx, g_bridge.response_copy, sizeof g_bridge.response_copy ); fire(); }      // the scan response is out
            front_t::run();
            return responded;
        };
        cb_adv_received = [ this ]( const read_buffer& b ) { front_adv_reception( b.buffer, b.size ); };
        cb_timeout = [ this ]() {
            g_bridge.rx_result = std::make_tuple( false, false, false );
            fire();
            front_t::run();
        };
        cb_end_event = [ this ]( connection_event_events ) {
            fire();                                                         // the response is out
            front_t::run();
        };
        cb_try_event_cancelation = []() {};
        cb_scan_request_in_filter = []( const bluetoe::link_layer::device_address& ) { return false; };
        // the receive buffer of the event was chosen when the event was scheduled; without room the front end listens with 3 bytes.
        // The world fills a buffer without gap.
        buf_allocate_receive = []() {
            if ( g_bridge.rx.size <= 3 ) return read_buffer{ nullptr, 0 };
            return gap ? read_buffer{ g_bridge.evt_rx_scratch, std::min( g_bridge.rx.size - gap, sizeof g_bridge.evt_rx_scratch ) } : g_bridge.rx;
        };
        buf_received = [ this ]( read_buffer b ) { return reception( b, true ); };
        buf_mic_failed = [ this ]( read_buffer b ) { return reception( b, false ); };
        buf_next_transmit = [ this ]() {
            // a PDU for which there is no room: the header is all the radio keeps
            if ( g_bridge.rx.size >= 2 ) { g_bridge.rx.buffer[ 0 ] = front_rx_header[ 0 ]; g_bridge.rx.buffer[ 1 ] = front_rx_header[ 1 ]; }
            return isr_and_response( true );
        };
    }

    void schedule_advertisment( unsigned ch, const write_buffer& advertising_data, const write_buffer& response_data, delta_time when, const read_buffer& receive )
    {
        adv_data = from_radio( advertising_data, g_bridge.adv_copy, sizeof g_bridge.adv_copy );
        rsp_data = from_radio( response_data, g_bridge.rsp_copy, sizeof g_bridge.rsp_copy );
        adv_receive = gap ? read_buffer{ g_bridge.adv_rx_scratch, std::min( receive.size - gap, sizeof g_bridge.adv_rx_scratch ) } : receive;
        front_t::schedule_advertisment( ch, advertising_data, response_data, when, receive );
    }

    delta_time schedule_connection_event( unsigned ch, delta_time start_receive, delta_time end_receive, delta_time connection_interval )
    {
        start_us = start_receive.usec(); end_us = end_receive.usec(); interval_us = connection_interval.usec();
        ++scheduled_events;
        pending = radio_state::nothing;
        const delta_time result = front_t::schedule_connection_event( ch, start_receive, end_receive, connection_interval );
        if ( pending != radio_state::connection_event ) ++too_late_events;      // the front end reports it as timeout() from its next run()
        return result;
    }

private:
    void fire() { g_bridge.isr( g_bridge.that ); }

    // header, body -> header, gap, body
    static void to_radio( const std::uint8_t* pdu, std::size_t size, const read_buffer& target )
    {
        if ( !gap ) { if ( pdu != target.buffer ) std::memcpy( target.buffer, pdu, std::min( size, target.size ) ); return; }
        if ( size < 2 || target.size < 3 ) return;
        target.buffer[ 0 ] = pdu[ 0 ]; target.buffer[ 1 ] = pdu[ 1 ]; target.buffer[ 2 ] = 0;
        std::memcpy( target.buffer + 3, pdu + 2, std::min( size - 2, target.size - 3 ) );
    }

    static write_buffer from_radio( const write_buffer& b, std::uint8_t* copy, std::size_t copy_size )
    {
        if ( !gap || b.buffer == nullptr || b.size < 3 ) return b;
        const std::size_t body = std::min( b.size - 3, copy_size - 2 );
        copy[ 0 ] = b.buffer[ 0 ]; copy[ 1 ] = b.buffer[ 1 ];
        std::memcpy( copy + 2, b.buffer + 3, body );
        return write_buffer{ copy, 2 + body };
    }

    write_buffer isr_and_response( bool valid_pdu )
    {
        g_bridge.rx_result = std::make_tuple( true, valid_pdu, true );
        g_bridge.tx_configured = false;
        fire();
        if ( !g_bridge.tx_configured ) return write_buffer{ nullptr, 0 };
        return from_radio( g_bridge.tx, g_bridge.evt_tx_scratch, sizeof g_bridge.evt_tx_scratch );
    }

    write_buffer reception( read_buffer b, bool valid_pdu )
    {
        if ( gap ) to_radio( b.buffer, 2 + b.buffer[ 1 ], g_bridge.rx );
        return isr_and_response( valid_pdu );
    }
};

template < std::size_t TransmitSize, std::size_t ReceiveSize, typename CallBack >
class nrf_bridge_radio : public nrf_bridge_radio_impl< TransmitSize, ReceiveSize, CallBack, false > {};

// with link encryption: PDU layout with the gap byte, packet counters, and the real security tool box of the binding (security_tool_box.cpp, uECC)
template < std::size_t TransmitSize, std::size_t ReceiveSize, typename CallBack >
class nrf_bridge_radio_enc : public nrf_bridge_radio_impl< TransmitSize, ReceiveSize, CallBack, true > {};

}

namespace bluetoe { namespace link_layer {
    // the layout follows the radio type the link layer is instantiated with
    template < std::size_t TransmitSize, std::size_t ReceiveSize, typename CallBack >
    struct pdu_layout_by_radio< stack::nrf_bridge_radio_enc< TransmitSize, ReceiveSize, CallBack > >
    {
        using pdu_layout = bluetoe::nrf_details::encrypted_pdu_layout;
    };
} }

namespace stack {

// nrf52_radio_base leaves its flags to the zero initialisation of static storage: the link layer is placed in zeroed memory
template < class T >
struct zeroed
{
    T* p;
    zeroed() { void* m = std::calloc( 1, sizeof( T ) ); p = new ( m ) T; }
    ~zeroed() { p->~T(); std::free( p ); }
    zeroed( const zeroed& ) = delete;
    zeroed& operator=( const zeroed& ) = delete;
    T* operator->() { return p; }
    T& operator*() { return *p; }
};

}

#endif
