// stack_sim - link layer configurations, glue and plan generation for the whole-peripheral world (see stack_world.hpp)
//
// Compiled six times (-DSTACK_PART=0..5, see Makefile) so that the twelve link layer instantiations build in parallel:
// part 0: configurations 0-2 + harness and main, 1: 3-4, 2: 5-6 (encryption), 3: 7-9, 4: 10-11 (real nRF52 front end), 5: 12-13 (encryption on the real front end)
#ifndef STACK_PART
#define STACK_PART 0
#endif
#include "stack_world.hpp"
#if STACK_PART >= 3
#include "nrf_bridge.hpp"
#endif
#if STACK_PART == 5
#include <openssl/evp.h>
#endif

#include <bluetoe/server.hpp>
#include <bluetoe/link_layer.hpp>

namespace {

std::uint8_t value_a[ 4 ] = { 1, 2, 3, 4 };
std::uint8_t value_b[ 20 ];

using gatt_server = bluetoe::server<
    bluetoe::service<
        bluetoe::service_uuid16< 0x1234 >,
        bluetoe::characteristic<
            bluetoe::characteristic_uuid16< 0xA001 >,
            bluetoe::bind_characteristic_value< std::uint8_t[ 4 ], &value_a >,
            bluetoe::notify, bluetoe::indicate >,
        bluetoe::characteristic<
            bluetoe::characteristic_uuid16< 0xA002 >,
            bluetoe::bind_characteristic_value< std::uint8_t[ 20 ], &value_b > >
    >,
    bluetoe::no_gap_service_for_gatt_servers
>;

// a server with a characteristic that requires an encrypted link (C28)
std::uint8_t value_secret[ 6 ];
const std::uint8_t secret_init[ 6 ] = { 0xc5, 0x28, 0x5e, 0xc2, 0xe7, 0x99 };

using gatt_server_enc = bluetoe::server<
    bluetoe::service<
        bluetoe::service_uuid16< 0x1234 >,
        bluetoe::characteristic<
            bluetoe::characteristic_uuid16< 0xA001 >,
            bluetoe::bind_characteristic_value< std::uint8_t[ 4 ], &value_a >,
            bluetoe::notify, bluetoe::indicate >,
        bluetoe::characteristic<
            bluetoe::characteristic_uuid16< 0xA003 >,
            bluetoe::bind_characteristic_value< std::uint8_t[ 6 ], &value_secret >,
            bluetoe::requires_encryption >
    >,
    bluetoe::no_gap_service_for_gatt_servers
>;
constexpr unsigned secret_handle = 6;   // service 1, declaration 2, value 3, CCCD 4, declaration 5, value 6

// the application's bond data base: two bonds that every peer may use
struct bond_db_t
{
    static bluetoe::details::uint128_t key( unsigned i ) { bluetoe::details::uint128_t k; for ( unsigned j = 0; j != 16; ++j ) k[ j ] = static_cast< std::uint8_t >( 0x11 * ( i + 1 ) + j ); return k; }
    static constexpr std::uint16_t ediv[ 2 ] = { 0x2211, 0x0001 };
    static constexpr std::uint64_t rand[ 2 ] = { 0x8877665544332211ull, 1 };

    template < class Radio >
    bluetoe::details::longterm_key_t create_new_bond( Radio&, const bluetoe::link_layer::device_address& ) { return bluetoe::details::longterm_key_t{ key( 7 ), 0x0707070707070707ull, 0x0707 }; }
    template < class Connection >
    void store_bond( const bluetoe::details::longterm_key_t&, const Connection& ) {}
    std::pair< bool, bluetoe::details::uint128_t > find_key( std::uint16_t e, std::uint64_t r, const bluetoe::link_layer::device_address& ) const
    {
        for ( unsigned i = 0; i != 2; ++i ) if ( ediv[ i ] == e && rand[ i ] == r ) return { true, key( i ) };
        return std::pair< bool, bluetoe::details::uint128_t >{};
    }
    template < class Connection >
    void restore_cccds( Connection& ) {}
} bond_db;
constexpr std::uint16_t bond_db_t::ediv[ 2 ];
constexpr std::uint64_t bond_db_t::rand[ 2 ];

// sim_radio with link encryption (flag and key, no cipher) and a toy security tool box for the legacy security manager (a stub: pairing is decided in sm_sim)
template < std::size_t TransmitSize, std::size_t ReceiveSize, typename CallBack >
class sim_radio_enc : public stack::sim_radio< TransmitSize, ReceiveSize, CallBack >
{
public:
    static constexpr bool hardware_supports_lesc_pairing   = false;
    static constexpr bool hardware_supports_legacy_pairing = true;
    static constexpr bool hardware_supports_encryption     = true;

    using u128 = bluetoe::details::uint128_t;
    u128 create_srand() { u128 r; for ( auto& b : r ) b = static_cast< std::uint8_t >( ++toy_ * 37 ); return r; }
    u128 create_passkey() { return u128{{ 0 }}; }
    bluetoe::details::longterm_key_t create_long_term_key() { return bluetoe::details::longterm_key_t{ create_srand(), 0x1111222233334444ull, 0x5555 }; }
    u128 c1( const u128& k, const u128& r, const u128& p1, const u128& p2 ) const { u128 o; for ( unsigned i = 0; i != 16; ++i ) o[ i ] = static_cast< std::uint8_t >( k[ i ] ^ r[ i ] ^ p1[ ( i + 3 ) % 16 ] ^ p2[ ( i + 7 ) % 16 ] ^ 0x5a ); return o; }
    u128 s1( const u128& k, const u128& sr, const u128& mr ) { u128 o; for ( unsigned i = 0; i != 16; ++i ) o[ i ] = static_cast< std::uint8_t >( k[ i ] ^ sr[ i ] ^ mr[ 15 - i ] ^ 0xc3 ); return o; }

    std::pair< std::uint64_t, std::uint32_t > setup_encryption( u128 key, std::uint64_t, std::uint32_t )
    {
        this->enc_key = key; this->key_set = true; ++this->enc_setups;
        return { 0x0123456789abcdefull, 0x89abcdefu };
    }
    void start_receive_encrypted()  { this->rx_enc = true; ++this->rx_enc_starts; }
    void start_transmit_encrypted() { this->tx_enc = true; }
    void stop_receive_encrypted()   { this->rx_enc = false; }
    void stop_transmit_encrypted()  { this->tx_enc = false; }
private:
    unsigned toy_ = 0;
};

stack::callback_recorder recorder;

namespace ll = bluetoe::link_layer;

using ll0 = ll::link_layer< gatt_server, stack::sim_radio,
    ll::connection_callbacks< stack::callback_recorder, recorder > >;

using ll1 = ll::link_layer< gatt_server, stack::sim_radio,
    ll::connection_callbacks< stack::callback_recorder, recorder >,
    ll::buffer_sizes< 100, 100 >,
    ll::peripheral_latency_ignored,
    ll::white_list< 3 >,
    ll::variable_advertising_channel_map,
    ll::sleep_clock_accuracy_ppm< 100 >,
    ll::advertising_interval< 30 > >;

using ll2 = ll::link_layer< gatt_server, stack::sim_radio,
    ll::connection_callbacks< stack::callback_recorder, recorder >,
    ll::peripheral_latency_strict,
    ll::no_auto_start_advertising,
    ll::advertising_interval< 20 >,
    ll::sleep_clock_accuracy_ppm< 20 > >;

using ll3 = ll::link_layer< gatt_server, stack::sim_radio,
    ll::connection_callbacks< stack::callback_recorder, recorder >,
    ll::peripheral_latency_configuration< ll::peripheral_latency::listen_if_last_received_not_empty, ll::peripheral_latency::listen_if_unacknowledged_data >,
    ll::buffer_sizes< 61, 200 >,
    ll::variable_advertising_channel_map,
    ll::advertising_interval< 1000 > >;

// several advertising types, switched at run time
using ll4 = ll::link_layer< gatt_server, stack::sim_radio,
    ll::connection_callbacks< stack::callback_recorder, recorder >,
    ll::connectable_undirected_advertising,
    ll::connectable_directed_advertising,
    ll::scannable_undirected_advertising,
    ll::non_connectable_undirected_advertising,
    ll::white_list< 2 >,
    ll::advertising_interval< 50 > >;

#if STACK_PART >= 3
// configurations 0..4 on the real nRF52 radio front end (harness/nrf_bridge.hpp)
using ll0n = ll::link_layer< gatt_server, stack::nrf_bridge_radio,
    ll::connection_callbacks< stack::callback_recorder, recorder > >;

using ll1n = ll::link_layer< gatt_server, stack::nrf_bridge_radio,
    ll::connection_callbacks< stack::callback_recorder, recorder >,
    ll::buffer_sizes< 100, 100 >,
    ll::peripheral_latency_ignored,
    ll::white_list< 3 >,
    ll::variable_advertising_channel_map,
    ll::sleep_clock_accuracy_ppm< 100 >,
    ll::advertising_interval< 30 > >;

using ll2n = ll::link_layer< gatt_server, stack::nrf_bridge_radio,
    ll::connection_callbacks< stack::callback_recorder, recorder >,
    ll::peripheral_latency_strict,
    ll::no_auto_start_advertising,
    ll::advertising_interval< 20 >,
    ll::sleep_clock_accuracy_ppm< 20 > >;

using ll3n = ll::link_layer< gatt_server, stack::nrf_bridge_radio,
    ll::connection_callbacks< stack::callback_recorder, recorder >,
    ll::peripheral_latency_configuration< ll::peripheral_latency::listen_if_last_received_not_empty, ll::peripheral_latency::listen_if_unacknowledged_data >,
    ll::buffer_sizes< 61, 200 >,
    ll::variable_advertising_channel_map,
    ll::advertising_interval< 1000 > >;

using ll4n = ll::link_layer< gatt_server, stack::nrf_bridge_radio,
    ll::connection_callbacks< stack::callback_recorder, recorder >,
    ll::connectable_undirected_advertising,
    ll::connectable_directed_advertising,
    ll::scannable_undirected_advertising,
    ll::non_connectable_undirected_advertising,
    ll::white_list< 2 >,
    ll::advertising_interval< 50 > >;
#endif

#if STACK_PART == 5
// link encryption on the real front end: PDU layout with the gap byte, packet counters, the binding's own security tool box
using ll5n = ll::link_layer< gatt_server_enc, stack::nrf_bridge_radio_enc,
    ll::connection_callbacks< stack::callback_recorder, recorder >,
    bluetoe::legacy_security_manager,
    bluetoe::bonding_data_base< bond_db_t, bond_db >,
    ll::advertising_interval< 40 > >;

using ll6n = ll::link_layer< gatt_server_enc, stack::nrf_bridge_radio_enc,
    ll::connection_callbacks< stack::callback_recorder, recorder >,
    bluetoe::legacy_security_manager,
    bluetoe::bonding_data_base< bond_db_t, bond_db >,
    ll::buffer_sizes< 61, 200 >,
    ll::peripheral_latency_strict,
    ll::advertising_interval< 40 > >;
#endif

// link encryption: legacy security manager, bond data base, small buffers and latency
using ll5 = ll::link_layer< gatt_server_enc, sim_radio_enc,
    ll::connection_callbacks< stack::callback_recorder, recorder >,
    bluetoe::legacy_security_manager,
    bluetoe::bonding_data_base< bond_db_t, bond_db >,
    ll::advertising_interval< 40 > >;

using ll6 = ll::link_layer< gatt_server_enc, sim_radio_enc,
    ll::connection_callbacks< stack::callback_recorder, recorder >,
    bluetoe::legacy_security_manager,
    bluetoe::bonding_data_base< bond_db_t, bond_db >,
    ll::buffer_sizes< 61, 200 >,
    ll::peripheral_latency_strict,
    ll::advertising_interval< 40 > >;

bluetoe::link_layer::device_address device( std::int64_t who )
{
    const std::uint8_t a[ 6 ] = { static_cast< std::uint8_t >( 0xa0 | who ), 0x11, 0x22, 0x33, 0x44, 0xc5 };
    return bluetoe::link_layer::device_address( a, true );
}

template < class LL > bool app_white_list( LL& l, std::int64_t who, std::int64_t what, std::true_type )
{
    switch ( what )
    {
    case 0: return l.add_to_white_list( device( who ) );
    case 1: return l.remove_from_white_list( device( who ) );
    case 2: l.clear_white_list(); return true;
    case 3: l.connection_request_filter( ( who & 1 ) != 0 ); return true;
    default: l.scan_request_filter( ( who & 1 ) != 0 ); return true;
    }
}
template < class LL > bool app_white_list( LL&, std::int64_t, std::int64_t, std::false_type ) { return false; }
template < class LL > bool app_adv_map( LL& l, std::int64_t ch, std::int64_t add, std::true_type )
{
    if ( add ) l.add_channel_to_advertising_channel_map( static_cast< unsigned >( ch ) ); else l.remove_channel_from_advertsing_channel_map( static_cast< unsigned >( ch ) );
    return true;
}
template < class LL > bool app_adv_map( LL&, std::int64_t, std::int64_t, std::false_type ) { return false; }
template < class LL > bool app_start_stop( LL& l, std::int64_t what, std::int64_t count, std::true_type )
{
    if ( what == 0 ) l.start_advertising(); else if ( what == 1 ) l.stop_advertising(); else l.start_advertising( static_cast< unsigned >( 1 + ( ( count % 4 ) + 4 ) % 4 ) );
    return true;
}
template < class LL > bool app_start_stop( LL&, std::int64_t, std::int64_t, std::false_type ) { return false; }

template < class LL > bool app_change_adv( LL& l, std::int64_t type, std::int64_t who, std::true_type )
{
    switch ( ( ( type % 4 ) + 4 ) % 4 )
    {
    case 0: l.template change_advertising< ll::connectable_undirected_advertising >(); break;
    case 1: l.directed_advertising_address( device( who ) ); l.template change_advertising< ll::connectable_directed_advertising >(); break;   // without a target nothing would be advertised any more
    case 2: l.template change_advertising< ll::scannable_undirected_advertising >(); break;
    default: l.template change_advertising< ll::non_connectable_undirected_advertising >(); break;
    }
    return true;
}
template < class LL > bool app_change_adv( LL&, std::int64_t, std::int64_t, std::false_type ) { return false; }

template < class LL, bool RealFront > struct link_holder { std::unique_ptr< LL > link{ new LL }; };
#if STACK_PART >= 3
template < class LL > struct link_holder< LL, true > { stack::zeroed< LL > link; };
#endif

template < class LL, bool WhiteList, bool VarMap, bool NoAutoStart, bool MultiAdv = false, bool Encryption = false, bool RealFront = false >
void run_config( const sim::Plan& plan, sim::Result& res, unsigned latency_features, unsigned sca, unsigned adv_interval, unsigned wl_size, unsigned rx, unsigned tx )
{
    recorder = stack::callback_recorder();
    std::memset( value_b, 0x42, sizeof value_b );
    std::memcpy( value_secret, secret_init, sizeof value_secret );
    link_holder< LL, RealFront > holder;
    auto& link = holder.link;
    stack::ll_access acc;
    acc.run = [&]{ link->run(); };
    acc.event_counter = [&]{ return static_cast< unsigned >( link->connection_event_counter() ); };
    acc.channel_index = [&]{ return link->current_channel_index(); };
    acc.own_address = link->local_address();
    acc.latency_features = latency_features; acc.own_sca_ppm = sca; acc.adv_interval_ms = adv_interval;
    acc.has_white_list = WhiteList; acc.white_list_size = wl_size; acc.variable_adv_map = VarMap; acc.no_auto_start = NoAutoStart;
    acc.rx_buffer = rx; acc.tx_buffer = tx;
    if ( Encryption )
    {
        acc.has_encryption = true; acc.secret = value_secret; acc.secret_size = sizeof value_secret; acc.secret_handle = secret_handle;
        for ( unsigned i = 0; i != 2; ++i ) acc.bonds.push_back( stack::ll_access::bond{ bond_db_t::ediv[ i ], bond_db_t::rand[ i ], bond_db_t::key( i ) } );
    }
    // what a link layer control PDU of maximum size takes in the transmit ring (27 + header, + the gap byte of the encryption capable nRF52 radio)
    acc.tx_allocatable = [&]{ return link->allocate_transmit_buffer( RealFront && Encryption ? 30 : 29 ).size != 0; };
    acc.app = [&]( int kind, std::int64_t a, std::int64_t b ) -> bool {
        switch ( kind )
        {
        case 0: value_a[ 0 ] = static_cast< std::uint8_t >( a ); return link->notify( value_a );
        case 1: value_a[ 1 ] = static_cast< std::uint8_t >( a ); return link->indicate( value_a );
        case 2: link->disconnect(); return true;
        case 3: return ( b & 1 ) ? link->connection_parameter_update_request( 10, 20, 0, 100 ) : link->initiating_connection_parameter_request( 10, 20, 0, 100 );
        case 4: return link->phy_update_request_to_2mbit();
        case 5: return link->remote_versions_request();
        case 6: return app_white_list( *link, a, b, std::integral_constant< bool, WhiteList >() );
        case 7: return app_adv_map( *link, a, b, std::integral_constant< bool, VarMap >() );
        case 8: return app_start_stop( *link, a, b, std::integral_constant< bool, NoAutoStart >() );
        case 9: return app_change_adv( *link, a, b, std::integral_constant< bool, MultiAdv >() );
        }
        return false;
    };
    stack::world w( acc, *link, recorder, res );
    w.run( plan );
    res.probe( "advertising_pdus", w.adv_pdus );
    res.probe( "connection_events", w.connection_events );
    res.probe( "connections", w.connections );
    if ( w.instants_applied ) res.probe( "instants_applied", w.instants_applied );
    if ( w.control_answered ) res.probe( "control_pdus_answered", w.control_answered );
    if ( w.enc_completed ) res.probe( "encryption_procedures_completed", w.enc_completed );
    if ( w.enc_rejected ) res.probe( "encryption_procedures_rejected", w.enc_rejected );
    res.nontrivial = w.adv_pdus >= 3 && ( w.connection_events >= 5 || plan.property == "C24" || plan.property == "C25" );
    if ( plan.property == "C28" ) res.nontrivial = w.enc_completed + w.enc_rejected > 0;
    stack::g_current_radio = nullptr;
#if STACK_PART >= 3
    nrf_shim::wfi = nullptr;
#endif
}

}   // namespace

void run_stack_part_0( int c, const sim::Plan& plan, sim::Result& res );
void run_stack_part_1( int c, const sim::Plan& plan, sim::Result& res );
void run_stack_part_2( int c, const sim::Plan& plan, sim::Result& res );
void run_stack_part_3( int c, const sim::Plan& plan, sim::Result& res );
void run_stack_part_4( int c, const sim::Plan& plan, sim::Result& res );
void run_stack_part_5( int c, const sim::Plan& plan, sim::Result& res );

//                                              features: bit1 unack, bit2 rx-not-empty, bit3 tx-not-empty, bit4 rx-more-data, bit5 always (bit0: pending tx data)
#if STACK_PART == 0
void run_stack_part_0( int c, const sim::Plan& plan, sim::Result& res )
{
    switch ( c )
    {
    case 0: run_config< ll0, false, false, false >( plan, res, 1 | 2 | 4 | 8 | 16, 500, 100, 0, 61, 61 ); break;
    case 1: run_config< ll1, true, true, false >( plan, res, 32, 100, 30, 3, 100, 100 ); break;
    case 2: run_config< ll2, false, false, true >( plan, res, 1 | 16, 20, 20, 0, 61, 61 ); break;
    }
}
#elif STACK_PART == 1
void run_stack_part_1( int c, const sim::Plan& plan, sim::Result& res )
{
    switch ( c )
    {
    case 3: run_config< ll3, false, true, false >( plan, res, 4 | 2, 500, 1000, 0, 200, 61 ); break;
    case 4: run_config< ll4, true, false, false, true >( plan, res, 1 | 2 | 4 | 8 | 16, 500, 50, 2, 61, 61 ); break;
    }
}
#elif STACK_PART == 2
void run_stack_part_2( int c, const sim::Plan& plan, sim::Result& res )
{
    switch ( c )
    {
    case 5: run_config< ll5, false, false, false, false, true >( plan, res, 1 | 2 | 4 | 8 | 16, 500, 40, 0, 61, 61 ); break;
    case 6: run_config< ll6, false, false, false, false, true >( plan, res, 1 | 16, 500, 40, 0, 200, 61 ); break;
    }
}
#elif STACK_PART == 3
// the same link layers on the real nRF52 radio front end
void run_stack_part_3( int c, const sim::Plan& plan, sim::Result& res )
{
    switch ( c )
    {
    case 7:  run_config< ll0n, false, false, false, false, false, true >( plan, res, 1 | 2 | 4 | 8 | 16, 500, 100, 0, 61, 61 ); break;
    case 8:  run_config< ll1n, true, true, false, false, false, true >( plan, res, 32, 100, 30, 3, 100, 100 ); break;
    case 9:  run_config< ll2n, false, false, true, false, false, true >( plan, res, 1 | 16, 20, 20, 0, 61, 61 ); break;
    }
}
#elif STACK_PART == 4
void run_stack_part_4( int c, const sim::Plan& plan, sim::Result& res )
{
    switch ( c )
    {
    case 10: run_config< ll3n, false, true, false, false, false, true >( plan, res, 4 | 2, 500, 1000, 0, 200, 61 ); break;
    case 11: run_config< ll4n, true, false, false, true, false, true >( plan, res, 1 | 2 | 4 | 8 | 16, 500, 50, 2, 61, 61 ); break;
    }
}
#else
// the RNG and ECB registers the binding's security tool box works with (shim/nrf.h): a counter and AES-128 from OpenSSL
namespace {
    std::uint8_t part5_rng_state = 0;
    std::uint8_t part5_rng() { part5_rng_state = static_cast< std::uint8_t >( part5_rng_state * 37 + 11 ); return part5_rng_state; }
    void part5_ecb( std::uint8_t* key_clear_cipher )
    {
        EVP_CIPHER_CTX* ctx = EVP_CIPHER_CTX_new();
        int len = 0;
        EVP_EncryptInit_ex( ctx, EVP_aes_128_ecb(), nullptr, key_clear_cipher, nullptr );
        EVP_CIPHER_CTX_set_padding( ctx, 0 );
        EVP_EncryptUpdate( ctx, key_clear_cipher + 32, &len, key_clear_cipher + 16, 16 );
        EVP_CIPHER_CTX_free( ctx );
    }
}
void run_stack_part_5( int c, const sim::Plan& plan, sim::Result& res )
{
    part5_rng_state = 0;
    nrf_shim::rng_source = &part5_rng;
    nrf_shim::ecb_engine = &part5_ecb;
    switch ( c )
    {
    case 12: run_config< ll5n, false, false, false, false, true, true >( plan, res, 1 | 2 | 4 | 8 | 16, 500, 40, 0, 61, 61 ); break;
    case 13: run_config< ll6n, false, false, false, false, true, true >( plan, res, 1 | 16, 500, 40, 0, 200, 61 ); break;
    }
}
#endif

#if STACK_PART == 0
namespace {

struct stack_harness : sim::Harness
{
    const char* name() const override { return "stack_sim"; }
    std::vector< std::string > properties() const override { return { "C20", "C21", "C22", "C23", "C24", "C25", "C27", "C28", "C29" }; }
    std::string nontrivial_rule( const std::string& ) const override
    {
        return "seeded plans against the whole peripheral (14 link layer configurations: 5 option sets plus 2 with link encryption, a legacy security manager and a bond data base, each on the contract radio of the harness and on the real nRF52 radio front end): scanners (random and public addresses) and initiators with well formed and malformed requests, a reference central with drifting clock "
               "(CSA#1, anchors, ARQ, MD bursts, LL control PDUs of every opcode and length, connection/channel-map/PHY updates with legal and illegal instants), application calls between events "
               "(notify/indicate with event cancellation, disconnect, peripheral initiated procedures, white list, advertising map/start/stop), air faults attached to connection events "
               "(loss or CRC error towards the peripheral, loss towards the central, silent central); non-trivial = >=3 advertising PDUs and >=5 connection events (advertising properties: >=3 PDUs); distinct = distinct trace hashes";
    }
    std::vector< std::string > real_components() const override
    {
        return { "bluetoe/link_layer/link_layer.hpp", "advertising.hpp", "peripheral_latency.hpp", "channel_map.cpp", "delta_time.cpp", "connection_callbacks.hpp + utility/ring.hpp", "white_list.hpp",
                 "ll_l2cap_sdu_buffer.hpp", "ll_data_pdu_buffer.hpp", "ring_buffer.hpp", "l2cap.hpp", "server.hpp (small GATT server)", "configurations 7..13: bindings/nordic/nrf52/include/bluetoe/nrf52.hpp (radio front end: scheduling, radio interrupt handler, scan request check, run loop)" };
    }
    std::vector< std::string > stub_components() const override { return { "configurations 0..6: radio (harness/sim_radio.hpp: scheduled_radio contract incl. scan request handling)", "configurations 7..13: the Hardware abstraction below nrf52.hpp (harness/nrf_bridge.hpp; nrf52.cpp is not compiled); configurations 12, 13 use the binding's security_tool_box.cpp + uECC over emulated RNG / ECB registers", "central / scanners / initiators (reference, from the Core specification)", "application", "air", "clocks of both devices" }; }
    std::uint64_t default_runs( const std::string&, bool thorough ) const override { return thorough ? 6000000 : 200000; }
    std::vector< std::string > op_names() const override { return { "run", "scan_request", "connect_request", "air_fault", "central_control", "central_update", "central_l2cap", "app", "central_terminate", "central_encryption" }; }

    sim::Plan generate( std::uint64_t seed, const std::string& property, bool thorough ) const override
    {
        sim::Rng rng( seed );
        sim::Plan p;
        p.harness = name(); p.property = property; p.seed = seed;
        p.config = static_cast< int >( rng.below( 14 ) );
        if ( property == "C28" ) { static const int enc_cfg[ 4 ] = { 5, 6, 12, 13 }; p.config = enc_cfg[ rng.below( 4 ) ]; }
        static const int own_sca[ 14 ] = { 500, 100, 20, 500, 500, 500, 500, 500, 100, 20, 500, 500, 500, 500 };
        const bool enc_cfg = p.config == 5 || p.config == 6 || p.config == 12 || p.config == 13;
        // the peripheral's clock error: inside its declared accuracy, extremes likely
        const int sel = static_cast< int >( rng.below( 5 ) );
        p.knobs[ "p_drift_ppm" ] = sel == 0 ? own_sca[ p.config ] : sel == 1 ? -own_sca[ p.config ] : sel == 2 ? 0 : rng.range( -own_sca[ p.config ], own_sca[ p.config ] );
        p.knobs[ "setup_margin_us" ] = rng.pick( std::vector< int >{ 100, 300, 300, 1000 } );
        p.knobs[ "refuse_disarm" ] = rng.chance( 15 ) ? 1 : 0;      // the hardware never lets a scheduled event go (always "too close")
        {
            // connections usually start counting at 0; some start shortly before the 16 bit counter wraps or changes its sign bit
            static const int bases[] = { 65535, 65534, 65530, 65520, 65500, 65400, 65000, 32767, 32766, 32760, 32740, 32700 };
            p.knobs[ "event_counter_base" ] = rng.chance( 70 ) ? 0 : rng.chance( 85 ) ? bases[ rng.below( sizeof bases / sizeof bases[ 0 ] ) ] : static_cast< int >( rng.below( 65536 ) );
        }
        const bool adv_focus = property == "C24" || property == "C25";
        const unsigned n_ops = static_cast< unsigned >( rng.range( 6, thorough ? 90 : 45 ) );
        bool connect_planned = false;
        // white list configurations: scanners and initiators are likely to be devices the application has put on the list
        const bool wl_cfg = p.config == 1 || p.config == 4 || p.config == 8 || p.config == 11;
        std::int64_t wl_last = -1;
        auto device_id = [&]() -> std::int64_t { return wl_cfg && wl_last >= 0 && rng.chance( 60 ) ? wl_last : rng.range( 0, 5 ); };
        for ( unsigned i = 0; i != n_ops; ++i )
        {
            const unsigned x = static_cast< unsigned >( rng.below( 100 ) );
            if ( enc_cfg && rng.chance( property == "C28" ? 40 : 15 ) )
            {
                // link encryption: procedures of an honest central, single PDUs of a hostile one, accesses to the protected characteristic
                static const int kinds[] = { 0, 0, 0, 1, 2, 2, 3, 3, 4, 5, 6, 6, 6, 7, 7 };
                p.ops.push_back( sim::Op( stack::op_central_enc, { kinds[ rng.below( sizeof kinds / sizeof kinds[ 0 ] ) ], rng.range( 0, 5 ), rng.range( 0, 5 ) } ) );
                if ( rng.chance( 60 ) ) p.ops.push_back( sim::Op( stack::op_run, { rng.range( 1, 6 ) } ) );
            }
            else if ( x < 34 ) p.ops.push_back( sim::Op( stack::op_run, { rng.chance( 70 ) ? rng.range( 1, 6 ) : rng.range( 6, adv_focus ? 20 : 60 ) } ) );
            else if ( x < ( adv_focus ? 50 : 38 ) ) p.ops.push_back( sim::Op( stack::op_scan_req, { rng.chance( 60 ) ? 0 : rng.range( 1, 6 ), device_id() } ) );
            else if ( x < ( adv_focus ? 62 : 50 ) )
            {
                const std::int64_t kind = rng.chance( adv_focus ? 45 : 80 ) ? 0 : rng.range( 1, 9 );
                std::int64_t interval = rng.chance( 60 ) ? rng.range( 0, 40 ) : rng.chance( 85 ) ? rng.range( 0, 399 ) : rng.range( 400, 3194 );
                std::int64_t latency = rng.chance( 50 ) ? 0 : rng.range( 0, 7 );
                if ( property == "C23" && rng.chance( 70 ) ) latency = rng.range( 1, 7 );
                // long sleeps: up to the 499 events the specification permits (short intervals: the supervision timeout limits the product)
                std::int64_t sca_and_drift = rng.range( 0, 39 );
                // (a central that grants a long latency has an accurate clock: with 500 ppm on both sides the widening reaches half the interval after 499 events)
                if ( rng.chance( 12 ) ) { latency = rng.chance( 50 ) ? rng.range( 8, 499 ) : rng.range( 450, 499 ); if ( rng.chance( 70 ) ) interval = rng.range( 0, 6 ); if ( rng.chance( 85 ) ) sca_and_drift = rng.range( 5, 7 ) + 8 * rng.range( 0, 4 ); }
                p.ops.push_back( sim::Op( stack::op_connect, { kind, device_id(), interval, latency, rng.chance( 85 ) ? rng.range( 0, 599 ) : rng.range( 600, 3190 ), rng.range( 0, 7 ), rng.chance( 85 ) ? rng.range( 0, 7 ) : rng.range( 0, 3200 ), rng.range( 0, 11 ), rng.chance( 50 ) ? 0 : rng.range( 1, 100000 ),
                                                               sca_and_drift, rng.range( 0, 999 ), rng.range( 0, 3 ) } ) );
                connect_planned = true;
            }
            else if ( x < 58 ) p.ops.push_back( sim::Op( stack::op_air_fault, { rng.range( 0, 3 ), rng.chance( 75 ) ? rng.range( 1, 3 ) : rng.range( 4, 40 ) } ) );
            else if ( x < 70 )
            {
                static const int opcodes[] = { 0x08, 0x0c, 0x12, 0x16, 0x0f, 0x07, 0x0d, 0x11, 0x09, 0x13, 0x14, 0x15, 0x19, 0x20, 0x25, 0xff, 0x0e, 0x10, 0x17 };
                const int opcode = rng.chance( 85 ) ? opcodes[ rng.below( sizeof opcodes / sizeof opcodes[ 0 ] ) ] : static_cast< int >( rng.below( 256 ) );
                static const int good_len[ 0x26 ] = { 12, 8, 2, 23, 13, 1, 1, 2, 9, 9, 1, 1, 6, 2, 9, 24, 24, 3, 1, 1, 9, 9, 3, 3, 5 };
                int len = -1;
                sim::Op o( stack::op_central_control, { opcode, -1 } );
                const int want = opcode < 0x19 ? good_len[ opcode ] : 1 + static_cast< int >( rng.below( 5 ) );
                for ( int k = 1; k < want; ++k ) o.bytes.push_back( opcode == 0x08 ? static_cast< std::uint8_t >( rng.chance( 50 ) ? 0xff : rng.byte() ) : rng.byte() );
                if ( opcode == 0x0c && o.bytes.size() >= 1 ) o.bytes[ 0 ] = rng.chance( 70 ) ? 0x09 : 0x06;
                if ( rng.chance( 20 ) ) len = static_cast< int >( rng.range( 0, 27 ) );
                o.a[ 1 ] = len;
                p.ops.push_back( o );
            }
            else if ( x < 78 )
            {
                static const std::int64_t deltas[] = { 6, 7, 8, 10, 16, 40, 0, 1, 2, 3, 5, -1, -5, 32767, 32768, 40000, 65535 };
                std::int64_t delta = rng.chance( 70 ) ? rng.range( 6, 30 ) : deltas[ rng.below( sizeof deltas / sizeof deltas[ 0 ] ) ];
                if ( delta < 0 ) delta = 0;
                p.ops.push_back( sim::Op( stack::op_central_update, { rng.range( 0, 2 ), delta, rng.range( 0, 100000 ), rng.range( 0, 5 ), rng.range( 0, 199 ), rng.chance( 90 ) ? rng.range( 0, 4 ) : rng.range( 5, 499 ), rng.range( 0, 99 ) } ) );
            }
            else if ( x < 84 )
            {
                // an ATT request (or something else) in one L2CAP frame
                sim::Op o( stack::op_central_l2cap, { rng.chance( 85 ) ? 4 : rng.range( 0, 0x40 ), rng.chance( 90 ) ? 0 : rng.range( -2, 2 ) } );
                static const std::uint8_t reqs[][ 7 ] = { { 3, 0x0a, 0x03, 0x00 }, { 5, 0x12, 0x03, 0x00, 0x55, 0x66 }, { 3, 0x02, 0x17, 0x00 }, { 5, 0x04, 0x01, 0x00, 0xff, 0xff }, { 5, 0x12, 0x04, 0x00, 0x03, 0x00 }, { 1, 0x1e } };
                const auto& r = reqs[ rng.below( 6 ) ];
                o.bytes.assign( r + 1, r + 1 + r[ 0 ] );
                p.ops.push_back( o );
            }
            else if ( x < 97 )
            {
                std::int64_t kind = rng.range( 0, 9 );
                if ( adv_focus && rng.chance( 60 ) ) kind = rng.range( 6, 9 );
                if ( ( p.config == 4 || p.config == 11 ) && rng.chance( 35 ) ) kind = 9;
                std::int64_t a = rng.range( 0, 11 ), b = rng.range( 0, 9 );
                if ( kind == 6 && wl_cfg && rng.chance( 70 ) )
                {
                    static const int whats[] = { 0, 0, 0, 0, 1, 2, 3, 3, 4, 4 };
                    b = whats[ rng.below( 10 ) ];
                    a = b >= 3 ? ( rng.chance( 75 ) ? 1 : 0 ) : rng.range( 0, 5 );
                    if ( b == 0 ) wl_last = a;
                }
                p.ops.push_back( sim::Op( stack::op_app, { kind, a, b, rng.chance( 50 ) ? rng.range( 0, 2000 ) : rng.range( 0, 400000 ) } ) );
            }
            else if ( x < 99 ) p.ops.push_back( sim::Op( stack::op_central_terminate, {} ) );
            else p.ops.push_back( sim::Op( stack::op_run, { rng.range( 100, 400 ) } ) );
        }
        if ( !adv_focus && !connect_planned )
            p.ops.insert( p.ops.begin() + 1, sim::Op( stack::op_connect, { 0, 0, rng.range( 0, 30 ), rng.range( 0, 3 ), rng.range( 0, 599 ), 1, 0, rng.range( 0, 11 ), 0, rng.range( 0, 39 ), rng.range( 0, 999 ), rng.range( 0, 3 ) } ) );
        // a procedure of the peripheral that the central leaves unanswered, and a long wait (40 s are thousands of connection events)
        if ( property == "C27" && !adv_focus && rng.chance( thorough ? 4 : 2 ) )
        {
            p.ops.push_back( sim::Op( stack::op_app, { rng.chance( 50 ) ? 5 : 3, rng.range( 0, 11 ), rng.range( 0, 9 ), 0 } ) );
            if ( rng.chance( 60 ) ) { p.ops.push_back( sim::Op( stack::op_run, { rng.range( 1, 40 ) } ) ); p.ops.push_back( sim::Op( stack::op_central_update, { rng.range( 1, 2 ), rng.range( 6, 30 ), rng.range( 0, 100000 ), 0, 0, 0, 0 } ) ); }
            for ( int k = 0; k != 16; ++k ) p.ops.push_back( sim::Op( stack::op_run, { 400 } ) );
        }
        p.ops.push_back( sim::Op( stack::op_run, { rng.range( 2, 30 ) } ) );
        return p;
    }

    void execute( const sim::Plan& plan, sim::Result& res ) const override
    {
        const int c = ( ( plan.config % 14 ) + 14 ) % 14;
        res.note( "config %d", c );
        if ( c < 3 ) run_stack_part_0( c, plan, res );
        else if ( c < 5 ) run_stack_part_1( c, plan, res );
        else if ( c < 7 ) run_stack_part_2( c, plan, res );
        else if ( c < 10 ) run_stack_part_3( c, plan, res );
        else if ( c < 12 ) run_stack_part_4( c, plan, res );
        else run_stack_part_5( c, plan, res );
    }

    std::vector< sim::Op > simplify( const sim::Plan& plan, std::size_t i ) const override
    {
        std::vector< sim::Op > r;
        const sim::Op& op = plan.ops[ i ];
        if ( op.kind == stack::op_run && op.arg( 0 ) > 1 ) { sim::Op c = op; c.a[ 0 ] = op.arg( 0 ) / 2; r.push_back( c ); c.a[ 0 ] = op.arg( 0 ) - 1; r.push_back( c ); }
        if ( op.kind == stack::op_air_fault && op.arg( 1 ) > 1 ) { sim::Op c = op; c.a[ 1 ] = op.arg( 1 ) - 1; r.push_back( c ); }
        if ( op.kind == stack::op_app && op.arg( 3 ) > 0 ) { sim::Op c = op; c.a[ 3 ] = 0; r.push_back( c ); }
        return r;
    }
};

}

int main( int argc, char** argv )
{
    stack_harness h;
    return sim::sim_main( argc, argv, h );
}
#endif
