// csc_sim - the control point of the Cycling Speed and Cadence service (C40)
//
// Parties: the client (writes to the control point with any opcode and length, subscribes / unsubscribes, confirms indications),
// the sensor application (confirms a "set cumulative value" some time later), the link (polls for the indication, possibly late;
// drops and re-establishes the connection).
//
// Real code: bluetoe::cycling_speed_and_cadence<> (control_point_handler, sensor_position_handler), bluetoe::server<> with its
// write / indication paths, notification queue and client characteristic configuration.
// Stub: the link layer (what link_layer::queue_lcap_notification does), the sensor.
#include <iterator>
#include <array>
#include <algorithm>
#include <cstring>
#include <memory>
#include <tuple>

#include <bluetoe/server.hpp>
#include <bluetoe/services/csc.hpp>

#include "../sim/sim.hpp"

namespace {

using bytes = std::vector< std::uint8_t >;

struct sensor
{
    std::uint32_t wheel = 0x01020304;
    unsigned      set_calls = 0;
    std::pair< std::uint32_t, std::uint16_t > cumulative_wheel_revolutions_and_time() { return { wheel, 0x1234 }; }
    std::pair< std::uint16_t, std::uint16_t > cumulative_crank_revolutions_and_time() { return { 0x0042, 0x1234 }; }
    void set_cumulative_wheel_revolutions( std::uint32_t v ) { wheel = v; ++set_calls; }
};

using server_one_location = bluetoe::server<
    bluetoe::cycling_speed_and_cadence<
        bluetoe::sensor_location::top_of_shoe,
        bluetoe::csc::wheel_revolution_data_supported,
        bluetoe::csc::crank_revolution_data_supported,
        bluetoe::csc::handler< sensor > > >;

using server_three_locations = bluetoe::server<
    bluetoe::cycling_speed_and_cadence<
        bluetoe::sensor_location::top_of_shoe,
        bluetoe::sensor_location::in_shoe,
        bluetoe::sensor_location::hip,
        bluetoe::csc::wheel_revolution_data_supported,
        bluetoe::csc::crank_revolution_data_supported,
        bluetoe::csc::handler< sensor > > >;

using server_crank_only = bluetoe::server<
    bluetoe::cycling_speed_and_cadence<
        bluetoe::sensor_location::top_of_shoe,
        bluetoe::sensor_location::left_crank,
        bluetoe::csc::crank_revolution_data_supported,
        bluetoe::csc::handler< sensor > > >;

enum { op_write, op_subscribe, op_poll, op_confirm, op_app_confirm, op_reconnect, op_other, op_count };

template < class Server >
struct world
{
    using connection_t = typename Server::template channel_data_t< bluetoe::details::link_state >;

    Server                          server;
    std::unique_ptr< connection_t > conn;
    sim::Result&                    res;
    long                            idx = -1;
    unsigned                        cp_handle = 0, cccd_handle = 0;
    bool                            has_wheel;
    std::vector< std::uint8_t >     locations;

    // model
    bool        subscribed = false;
    bool        in_progress = false;        // an accepted procedure awaits its response indication
    int         pending_opcode = -1;
    bool        waits_for_app = false;      // "set cumulative value" was handed to the sensor, which has not confirmed yet
    bool        indication_outstanding = false;
    bool        lost_by_fault = false;      // the response of the accepted procedure cannot be delivered any more (disconnect / unsubscribe): outside the property
    unsigned    accepted = 0, responses = 0, rejected_busy = 0, rejected_other = 0;
    bool        read_during_procedure = false;     // the client read the control point while a procedure was in progress (see C06 'control-point-readable')

    explicit world( sim::Result& r, bool wheel, std::vector< std::uint8_t > locs ) : res( r ), has_wheel( wheel ), locations( std::move( locs ) )
    {
        server.notification_callback( &world::notification_cb, this );
        connect();
        discover();
    }

    template < class ... Args >
    void violate40( const char* rule, const std::string& key, long at, const char* fmt, Args ... args )
    {
        res.violate( "C40", rule, read_during_procedure ? key + " after-control-point-read" : key, at, fmt, args... );
    }

    void connect() { conn.reset( new connection_t ); subscribed = false; indication_outstanding = false; }

    static bool notification_cb( const bluetoe::details::notification_data& item, void* that, bluetoe::details::notification_type type )
    {
        world& w = *static_cast< world* >( that );
        switch ( type )
        {
        case bluetoe::details::notification_type::notification: return w.conn->queue_notification( item.client_characteristic_configuration_index() );
        case bluetoe::details::notification_type::indication:   return w.conn->queue_indication( item.client_characteristic_configuration_index() );
        default: w.conn->indication_confirmed(); return true;
        }
    }

    bytes request( const bytes& in )
    {
        std::unique_ptr< std::uint8_t[] > ib( new std::uint8_t[ in.size() ] );
        std::copy( in.begin(), in.end(), ib.get() );
        std::uint8_t out[ 64 ];
        std::size_t out_size = 23;
        server.l2cap_input( ib.get(), in.size(), out, out_size, *conn );
        return bytes( out, out + out_size );
    }

    bytes poll()
    {
        std::uint8_t out[ 64 ];
        std::size_t out_size = 23;
        server.l2cap_output( out, out_size, *conn );
        return bytes( out, out + out_size );
    }

    // the control point and its CCCD, found the way a client finds them
    void discover()
    {
        unsigned start = 1;
        std::vector< std::pair< unsigned, unsigned > > chars;      // value handle, uuid16
        for ( int guard = 0; guard != 40; ++guard )
        {
            const bytes rsp = request( bytes{ 0x08, std::uint8_t( start ), std::uint8_t( start >> 8 ), 0xff, 0xff, 0x03, 0x28 } );
            if ( rsp.size() < 2 || rsp[ 0 ] != 0x09 ) break;
            const unsigned len = rsp[ 1 ];
            for ( std::size_t i = 2; i + len <= rsp.size() && len >= 7; i += len )
            {
                const unsigned decl = rsp[ i ] | ( rsp[ i + 1 ] << 8 ), value = rsp[ i + 3 ] | ( rsp[ i + 4 ] << 8 );
                if ( len == 7 ) chars.push_back( { value, unsigned( rsp[ i + 5 ] | ( rsp[ i + 6 ] << 8 ) ) } );
                start = decl + 1;
            }
        }
        for ( const auto& c : chars ) if ( c.second == 0x2A55 ) cp_handle = c.first;
        if ( cp_handle )
        {
            const bytes rsp = request( bytes{ 0x04, std::uint8_t( cp_handle + 1 ), std::uint8_t( ( cp_handle + 1 ) >> 8 ), 0xff, 0xff } );
            if ( rsp.size() >= 6 && rsp[ 0 ] == 0x05 && rsp[ 1 ] == 1 )
                for ( std::size_t i = 2; i + 4 <= rsp.size(); i += 4 )
                    if ( ( rsp[ i + 2 ] | ( rsp[ i + 3 ] << 8 ) ) == 0x2902 && !cccd_handle ) cccd_handle = rsp[ i ] | ( rsp[ i + 1 ] << 8 );
        }
        res.note( "control point value handle %u, CCCD handle %u", cp_handle, cccd_handle );
    }

    const char* state() const { return in_progress ? ( waits_for_app ? "waiting-for-sensor" : "response-pending" ) : "idle"; }

    void write_control_point( const bytes& value )
    {
        bytes req{ 0x12, std::uint8_t( cp_handle ), std::uint8_t( cp_handle >> 8 ) };
        req.insert( req.end(), value.begin(), value.end() );
        res.note_bytes( "write control point", value.data(), value.size() );
        const bytes rsp = request( req );
        res.note_bytes( "  <-", rsp.data(), rsp.size() );
        const bool ok = rsp.size() == 1 && rsp[ 0 ] == 0x13;
        const bool error = rsp.size() == 5 && rsp[ 0 ] == 0x01 && rsp[ 1 ] == 0x12;
        if ( !ok && !error ) { violate40( "response-format", "response-format", idx, "write to the control point answered with %s", sim::hex( rsp ).c_str() ); return; }
        const int code = error ? rsp[ 4 ] : 0;
        const bool busy = code == 0xfe || code == 0x80;

        // what the write is
        const std::uint8_t opcode = value.empty() ? 0 : value[ 0 ];
        const bool well_formed = !value.empty() && ( opcode == 1 ? value.size() == 5 : opcode == 3 ? value.size() == 2 : opcode == 4 ? value.size() == 1 : true );

        if ( busy )
        {
            ++rejected_busy;
            if ( !in_progress )
                violate40( "rejected-while-idle", std::string( "rejected-while-idle " ) + ( lost_by_fault ? "after-lost-response" : "" ), idx,
                             "write %s rejected with Procedure Already In Progress (0x%02x) although no accepted procedure awaits its response indication%s", sim::hex( value ).c_str(), code,
                             lost_by_fault ? " (the last accepted one lost its response with the connection / subscription)" : "" );
            return;
        }
        if ( error ) { ++rejected_other; return; }

        // accepted
        ++accepted;
        if ( !subscribed )
            res.probe( "accepted_without_subscription" );
        if ( in_progress && !lost_by_fault )
            violate40( "accepted-while-busy", std::string( "accepted-while-busy " ) + state(), idx, "write %s accepted while procedure 0x%02x still awaits its response: one of the two responses is lost", sim::hex( value ).c_str(), pending_opcode );
        if ( !well_formed )
            res.probe( "malformed_write_accepted" );
        in_progress = true; lost_by_fault = false;
        pending_opcode = opcode;
        waits_for_app = opcode == 1 && well_formed;     // (also without wheel revolution data the service asks the sensor and waits for its confirmation)
    }

    void handle_output( const bytes& pdu )
    {
        if ( pdu.empty() ) return;
        res.note_bytes( "  poll <-", pdu.data(), pdu.size() );
        if ( pdu[ 0 ] == 0x1b ) return;                                    // measurement notification: not our business
        if ( pdu[ 0 ] != 0x1d || pdu.size() < 6 || ( pdu[ 1 ] | ( pdu[ 2 ] << 8 ) ) != static_cast< int >( cp_handle ) || pdu[ 3 ] != 0x10 )
        {
            violate40( "indication-format", "indication-format", idx, "unexpected server PDU %s", sim::hex( pdu ).c_str() );
            return;
        }
        ++responses;
        indication_outstanding = true;
        const int opcode = pdu[ 4 ];
        if ( !in_progress )
            violate40( "response-without-procedure", "response-without-procedure", idx, "response indication %s although no accepted procedure awaits one (each accepted procedure gets exactly one)", sim::hex( pdu ).c_str() );
        else if ( opcode != pending_opcode )
            violate40( "response-opcode", "response-opcode", idx, "response indication %s names opcode 0x%02x, the accepted procedure was 0x%02x", sim::hex( pdu ).c_str(), opcode, pending_opcode );
        else if ( waits_for_app )
            violate40( "response-before-sensor-confirmed", "response-before-sensor-confirmed", idx, "response indication %s for Set Cumulative Value before the sensor confirmed the new value", sim::hex( pdu ).c_str() );
        in_progress = false; waits_for_app = false; pending_opcode = -1;
    }

    void run( const sim::Plan& plan )
    {
        if ( !cp_handle || !cccd_handle ) { violate40( "discovery", "discovery", -1, "control point not found" ); return; }
        for ( const auto& op : plan.ops )
        {
            ++idx;
            switch ( ( ( op.kind % op_count ) + op_count ) % op_count )
            {
            case op_write: write_control_point( op.bytes ); break;
            case op_subscribe: {
                const std::uint8_t v = static_cast< std::uint8_t >( op.arg( 0 ) & 3 );
                const bytes rsp = request( bytes{ 0x12, std::uint8_t( cccd_handle ), std::uint8_t( cccd_handle >> 8 ), v, 0 } );
                res.note( "CCCD := %u -> %s", v, sim::hex( rsp ).c_str() );
                if ( rsp.size() == 1 && rsp[ 0 ] == 0x13 )
                {
                    const bool now = ( v & 2 ) != 0;
                    if ( subscribed && !now && in_progress ) { lost_by_fault = true; res.fault( "unsubscribed_while_response_pending" ); }
                    subscribed = now;
                }
                break; }
            case op_poll: handle_output( poll() ); break;
            case op_confirm:
                if ( indication_outstanding ) { const bytes rsp = request( bytes{ 0x1e } ); indication_outstanding = false; res.note( "confirmation -> %s", sim::hex( rsp ).c_str() ); }
                break;
            case op_app_confirm:
                // the sensor confirms the new cumulative value (only when it was asked to set one)
                if ( waits_for_app ) { res.note( "sensor confirms" ); waits_for_app = false; server.confirm_cumulative_wheel_revolutions( server ); }
                break;
            case op_reconnect:
                res.note( "disconnect / reconnect" );
                res.fault( "disconnect_reconnect" );
                server.client_disconnected( *conn );
                if ( in_progress ) lost_by_fault = true;
                connect();
                break;
            case op_other: {
                // other traffic: a read of the control point (not permitted), a measurement notification
                if ( op.arg( 0 ) & 1 ) { const bytes rsp = request( bytes{ 0x0a, std::uint8_t( cp_handle ), std::uint8_t( cp_handle >> 8 ) } ); res.note( "read control point -> %s", sim::hex( rsp ).c_str() );
                                         // (the control point is declared with no_read_access; that a handler based value is readable nevertheless is C06's business. Here it matters
                                         // because the read handler is the one that builds the response indication and ends the procedure)
                                         if ( !rsp.empty() && rsp[ 0 ] == 0x0b ) { res.violate( "C06", "control-point-readable", "control-point-readable", idx, "Read Request to the control point (no_read_access) answered with %s", sim::hex( rsp ).c_str() );
                                                                                     if ( in_progress ) read_during_procedure = true; } }
                else server.notify_timed_update( server );
                break; }
            }
        }
        // ---- bounded progress: with the faults over, a subscribed client whose indications are confirmed gets a valid procedure through
        if ( !lost_by_fault )
        {
            ++idx;
            if ( !subscribed ) { request( bytes{ 0x12, std::uint8_t( cccd_handle ), std::uint8_t( cccd_handle >> 8 ), 2, 0 } ); subscribed = true; }
            for ( int round = 0; round != 4 && ( in_progress || indication_outstanding ); ++round )
            {
                if ( indication_outstanding ) { request( bytes{ 0x1e } ); indication_outstanding = false; }
                if ( waits_for_app ) { waits_for_app = false; server.confirm_cumulative_wheel_revolutions( server ); }
                handle_output( poll() );
            }
            if ( indication_outstanding ) { request( bytes{ 0x1e } ); indication_outstanding = false; }
            if ( in_progress )
                violate40( "response-never-sent", std::string( "response-never-sent opcode=" ) + std::to_string( pending_opcode ), idx, "the accepted procedure 0x%02x did not get its response indication within 4 polls after the faults stopped", pending_opcode );
            else
            {
                write_control_point( bytes{ 0x04 } );       // Request Supported Sensor Locations: valid in every configuration
                if ( !in_progress && rejected_busy == 0 ) {}
                if ( !in_progress )
                    violate40( "blocked", "blocked", idx, "a valid procedure is not accepted although nothing is in progress and everything before was confirmed" );
                for ( int round = 0; round != 3 && in_progress; ++round ) handle_output( poll() );     // (a measurement notification may be in front)
                if ( in_progress )
                    violate40( "response-never-sent", "response-never-sent final", idx, "the final procedure did not get its response indication" );
            }
        }
        else
            res.probe( "run_ended_with_lost_response" );
        if ( accepted ) res.probe( "procedures_accepted", accepted );
        if ( rejected_busy ) res.probe( "rejected_already_in_progress", rejected_busy );
        if ( rejected_other ) res.probe( "rejected_malformed_or_unsubscribed", rejected_other );
        res.nontrivial = accepted >= 2 && rejected_other >= 1;
        res.steps = plan.ops.size();
    }
};

struct csc_harness : sim::Harness
{
    const char* name() const override { return "csc_sim"; }
    std::vector< std::string > properties() const override { return { "C40" }; }
    std::string nontrivial_rule( const std::string& ) const override
    {
        return "seeded sequences of control point writes (opcodes 0..5, 16 and random; lengths 0..8; right and wrong lengths per opcode), subscriptions, polls (possibly late), confirmations, delayed sensor confirmations and "
               "disconnects against three CSC server configurations, followed by a fault free phase; non-trivial: at least two procedures accepted and at least one write rejected as malformed or unsubscribed; distinct = distinct trace hashes";
    }
    std::vector< std::string > real_components() const override { return { "bluetoe/services/csc.hpp", "bluetoe/server.hpp (write, indication, notification queue, CCCD)", "bluetoe/characteristic_value.hpp (mixin_write_indication_control_point_handler)" }; }
    std::vector< std::string > stub_components() const override { return { "link layer (queues notifications / indications on the connection as link_layer::queue_lcap_notification does)", "sensor (handler object)" }; }
    std::uint64_t default_runs( const std::string&, bool thorough ) const override { return thorough ? 3000000 : 100000; }
    std::vector< std::string > op_names() const override { return { "write", "subscribe", "poll", "confirm", "app_confirm", "reconnect", "other" }; }

    sim::Plan generate( std::uint64_t seed, const std::string& property, bool thorough ) const override
    {
        sim::Rng rng( seed );
        sim::Plan p;
        p.harness = name(); p.property = property; p.seed = seed;
        p.config = static_cast< int >( rng.below( 3 ) );
        const unsigned n = static_cast< unsigned >( rng.range( 3, thorough ? 60 : 30 ) );
        const bool with_faults = rng.chance( 40 );
        p.ops.push_back( sim::Op( op_subscribe, { rng.chance( 85 ) ? 2 : rng.range( 0, 3 ) } ) );
        for ( unsigned i = 0; i != n; ++i )
        {
            const unsigned x = static_cast< unsigned >( rng.below( 100 ) );
            if ( x < 40 )
            {
                sim::Op o( op_write, {} );
                static const int opcodes[] = { 1, 1, 1, 2, 3, 3, 4, 4, 0, 5, 16 };
                const int opcode = rng.chance( 90 ) ? opcodes[ rng.below( 11 ) ] : static_cast< int >( rng.below( 256 ) );
                const std::size_t good = opcode == 1 ? 5 : opcode == 3 ? 2 : 1;
                const std::size_t len = rng.chance( 65 ) ? good : static_cast< std::size_t >( rng.range( 0, 8 ) );
                if ( len ) o.bytes.push_back( static_cast< std::uint8_t >( opcode ) );
                for ( std::size_t k = 1; k < len; ++k ) o.bytes.push_back( opcode == 3 && k == 1 && rng.chance( 70 ) ? static_cast< std::uint8_t >( rng.range( 0, 16 ) ) : rng.byte() );
                p.ops.push_back( o );
            }
            else if ( x < 62 ) p.ops.push_back( sim::Op( op_poll, {} ) );
            else if ( x < 76 ) p.ops.push_back( sim::Op( op_confirm, {} ) );
            else if ( x < 88 ) p.ops.push_back( sim::Op( op_app_confirm, {} ) );
            else if ( x < 93 ) p.ops.push_back( sim::Op( op_other, { rng.range( 0, 1 ) } ) );
            else if ( with_faults && x < 97 ) p.ops.push_back( sim::Op( op_subscribe, { rng.range( 0, 3 ) } ) );
            else if ( with_faults ) p.ops.push_back( sim::Op( op_reconnect, {} ) );
            else p.ops.push_back( sim::Op( op_poll, {} ) );
        }
        return p;
    }

    void execute( const sim::Plan& plan, sim::Result& res ) const override
    {
        const int c = ( ( plan.config % 3 ) + 3 ) % 3;
        res.note( "config %d", c );
        switch ( c )
        {
        case 0: { std::unique_ptr< world< server_one_location > > w( new world< server_one_location >( res, true, { 1 } ) ); w->run( plan ); break; }
        case 1: { std::unique_ptr< world< server_three_locations > > w( new world< server_three_locations >( res, true, { 1, 2, 3 } ) ); w->run( plan ); break; }
        default: { std::unique_ptr< world< server_crank_only > > w( new world< server_crank_only >( res, false, { 1, 5 } ) ); w->run( plan ); break; }
        }
    }

    std::vector< sim::Op > simplify( const sim::Plan& plan, std::size_t i ) const override
    {
        std::vector< sim::Op > r;
        const sim::Op& op = plan.ops[ i ];
        if ( op.kind == op_write && op.bytes.size() > 1 ) { sim::Op c = op; c.bytes.pop_back(); r.push_back( c ); }
        if ( op.kind == op_write && !op.bytes.empty() && op.bytes[ 0 ] != 4 ) { sim::Op c = op; c.bytes = { 4 }; r.push_back( c ); }
        return r;
    }
};

}

int main( int argc, char** argv )
{
    csc_harness h;
    return sim::sim_main( argc, argv, h );
}
