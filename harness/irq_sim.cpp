// irq_sim - interleaving at single-memory-access granularity (C30: details::ring, C13: notification_queue)
//
// Two real threads, exactly one of them running at any time (baton); a yield point
// sits in front of every access to shared state (guarded seams in ring.hpp and
// notification_queue.hpp).  The plan fixes who runs at every yield point.  Two
// schedule families: ISR (a complete op of the other side executes inside one
// yield point - what an interrupt does) and free interleaving (two threads / cores
// under sequential consistency).  Histories are checked for linearizability
// against a sequential model plus a final accounting after a sequential drain.
#include <atomic>
#include <condition_variable>
#include <cstdint>
#include <functional>
#include <mutex>
#include <thread>
#include <tuple>
#include <type_traits>
#include <iterator>
#include <array>
#include <algorithm>
#include <cstring>
#include <new>
#include <unistd.h>

namespace irq {
    void yield_point();

    struct sim_atomic_int {
        int v;
        sim_atomic_int( int x = 0 ) : v( x ) {}
        int load() const { yield_point(); return v; }
        void store( int x ) { yield_point(); v = x; }
    };

    struct sim_byte {
        std::uint8_t v;
        sim_byte( int x = 0 ) : v( static_cast< std::uint8_t >( x ) ) {}
        sim_byte( const sim_byte& ) = default;
        std::uint8_t load() const { yield_point(); return v; }
        void store( std::uint8_t x ) { yield_point(); v = x; }
        operator int() const { return load(); }
        sim_byte& operator=( int x ) { store( static_cast< std::uint8_t >( x ) ); return *this; }
        sim_byte& operator=( const sim_byte& o ) { store( o.v ); return *this; }
        // a read-modify-write is a load, an ALU operation and a store (LDRB / ORR / STRB); with rmw_atomic the two are one
        // step (what a critical section or an atomic instruction would give): the known lost-update race cannot occur then,
        // so every loss or duplication in such a run has another cause
        sim_byte& operator|=( int x )
        {
            if ( rmw_atomic ) { yield_point(); v = static_cast< std::uint8_t >( v | x ); return *this; }
            const std::uint8_t t = load(); store( static_cast< std::uint8_t >( t | x ) ); return *this;
        }
        sim_byte& operator&=( int x )
        {
            if ( rmw_atomic ) { yield_point(); v = static_cast< std::uint8_t >( v & x ); return *this; }
            const std::uint8_t t = load(); store( static_cast< std::uint8_t >( t & x ) ); return *this;
        }
        static inline bool rmw_atomic = false;
    };
}

#define BLUETOE_VERIF_RING_ATOMIC_INT ::irq::sim_atomic_int
#define BLUETOE_VERIF_RING_DATA_ACCESS() ::irq::yield_point()
#define BLUETOE_VERIF_NQ_BYTE ::irq::sim_byte

#include <bluetoe/ring.hpp>
#include <bluetoe/notification_queue.hpp>

#include "../sim/sim.hpp"

namespace irq {

// ------------------------------------------------------------------ scheduler
struct scheduler {
    std::mutex              m;
    std::condition_variable cv;
    int                     turn = 0;
    bool                    done[ 2 ] = { false, false };
    bool                    active = false;
    int                     mode = 0;        // 0: B's ops run as ISR inside A; 1: A's ops as ISR inside B; 2: free interleaving
    bool                    in_isr = false;
    const std::vector< std::int64_t >* decisions = nullptr;
    std::size_t             next_decision = 0;
    std::uint64_t           yields = 0, switches = 0;
    std::uint64_t           seq = 0;         // global event sequence number (stamps invoke / return)
    std::function< void() > fire_isr;        // ISR families: executes the next op of the interrupting side, inline

    void pass_to( int other )
    {
        std::lock_guard< std::mutex > l( m );
        turn = other;
        cv.notify_all();
    }
    void wait_for( int me )
    {
        std::unique_lock< std::mutex > l( m );
        cv.wait( l, [&]{ return turn == me; } );
    }
    bool decide()
    {
        if ( !decisions || decisions->empty() ) return false;
        const bool r = ( ( *decisions )[ next_decision % decisions->size() ] & 1 ) != 0;
        ++next_decision;
        return r;
    }
};

scheduler* g_sched = nullptr;
thread_local int t_me = -1;

void yield_point()
{
    scheduler* s = g_sched;
    if ( !s || !s->active || t_me < 0 ) return;
    ++s->yields;
    if ( s->mode == 2 )
    {
        const int other = 1 - t_me;
        if ( !s->done[ other ] && s->decide() )
        {
            ++s->switches;
            s->pass_to( other );
            s->wait_for( t_me );
        }
    }
    else
    {
        // ISR families: only the "main" side can be interrupted, an ISR runs to completion (an interrupt is a function call
        // that the interrupted code did not make)
        if ( s->in_isr || !s->fire_isr ) return;
        if ( s->decide() )
        {
            s->in_isr = true;
            s->fire_isr();
            s->in_isr = false;
        }
    }
}

// two persistent helper threads per process (creating threads per run is what dominates otherwise)
struct thread_pool {
    std::mutex              m;
    std::condition_variable cv;
    std::function< void() > job[ 2 ];
    bool                    has_job[ 2 ] = { false, false };
    unsigned                finished = 0;
    pid_t                   owner = 0;

    void start()
    {
        owner = getpid();
        for ( int i = 0; i != 2; ++i )
            std::thread( [ this, i ]{
                for ( ;; )
                {
                    std::function< void() > j;
                    {
                        std::unique_lock< std::mutex > l( m );
                        cv.wait( l, [&]{ return has_job[ i ]; } );
                        j = job[ i ];
                        has_job[ i ] = false;
                    }
                    j();
                    {
                        std::lock_guard< std::mutex > l( m );
                        ++finished;
                    }
                    cv.notify_all();
                }
            } ).detach();
    }
    void run_both( std::function< void() > a, std::function< void() > b )
    {
        {
            std::lock_guard< std::mutex > l( m );
            job[ 0 ] = a; job[ 1 ] = b; has_job[ 0 ] = has_job[ 1 ] = true; finished = 0;
        }
        cv.notify_all();
        std::unique_lock< std::mutex > l( m );
        cv.wait( l, [&]{ return finished == 2; } );
    }
};

thread_pool* g_pool = nullptr;

// runs the op lists of side 0 and side 1 under the plan's schedule
void run_two_sides( scheduler& s, std::size_t n0, std::size_t n1, const std::function< void( int side, std::size_t op ) >& exec )
{
    g_sched = &s;
    s.active = true;
    if ( s.mode != 2 )
    {
        const int main_side = s.mode == 0 ? 0 : 1;
        const std::size_t n_main = main_side == 0 ? n0 : n1, n_isr = main_side == 0 ? n1 : n0;
        std::size_t next_isr = 0;
        s.fire_isr = [&]{
            if ( next_isr == n_isr ) return;
            ++s.switches;
            const int saved = t_me;
            t_me = 1 - main_side;
            exec( 1 - main_side, next_isr++ );
            t_me = saved;
        };
        t_me = main_side;
        for ( std::size_t i = 0; i != n_main; ++i ) exec( main_side, i );
        // interrupts that did not fire while the main side was busy fire afterwards
        s.in_isr = true;
        t_me = 1 - main_side;
        while ( next_isr != n_isr ) exec( 1 - main_side, next_isr++ );
        s.in_isr = false;
        t_me = -1;
        s.fire_isr = nullptr;
    }
    else
    {
        if ( !g_pool || g_pool->owner != getpid() ) { g_pool = new thread_pool; g_pool->start(); }
        s.turn = 0;
        auto body = [&]( int me, std::size_t n ) {
            t_me = me;
            s.wait_for( me );
            for ( std::size_t i = 0; i != n; ++i ) exec( me, i );
            s.done[ me ] = true;
            s.pass_to( 1 - me );
            t_me = -1;
        };
        g_pool->run_both( [&]{ body( 0, n0 ); }, [&]{ body( 1, n1 ); } );
    }
    s.active = false;
    g_sched = nullptr;
}

// ------------------------------------------------------------------ history
struct hop {
    int             side;
    int             kind;
    std::int64_t    arg;
    std::uint64_t   invoke, ret;
    std::int64_t    r1, r2;       // results
};

// generic linearizability search: `apply( state, op )` returns false if the op's recorded result is impossible in state
template < class State >
bool linearizable( const std::vector< hop >& h, const State& init, const std::function< bool( State&, const hop& ) >& apply )
{
    const std::size_t n = h.size();
    std::vector< bool > used( n, false );
    std::function< bool( std::size_t, const State& ) > rec = [&]( std::size_t placed, const State& st ) -> bool {
        if ( placed == n ) return true;
        // the earliest return among unplaced ops bounds which ops may go next
        std::uint64_t min_ret = ~0ull;
        for ( std::size_t i = 0; i != n; ++i )
            if ( !used[ i ] && h[ i ].ret < min_ret ) min_ret = h[ i ].ret;
        for ( std::size_t i = 0; i != n; ++i )
        {
            if ( used[ i ] || h[ i ].invoke > min_ret ) continue;
            State next = st;
            if ( !apply( next, h[ i ] ) ) continue;
            used[ i ] = true;
            if ( rec( placed + 1, next ) ) { used[ i ] = false; return true; }
            used[ i ] = false;
        }
        return false;
    };
    return rec( 0, init );
}

enum { k_push, k_pop, k_notify, k_indicate, k_dequeue, k_confirm, k_sched };

std::string history_text( const std::vector< hop >& h )
{
    std::string s;
    for ( const auto& o : h )
    {
        char b[ 128 ];
        static const char* names[] = { "push", "pop", "notify", "indicate", "dequeue", "confirm" };
        snprintf( b, sizeof b, "%s[%d %s(%lld)->%lld,%lld @%llu-%llu]", s.empty() ? "" : " ", o.side, names[ o.kind ], (long long)o.arg, (long long)o.r1, (long long)o.r2,
                  (unsigned long long)o.invoke, (unsigned long long)o.ret );
        s += b;
    }
    return s;
}

// ------------------------------------------------------------------ C30: details::ring
template < std::size_t Cap >
void run_ring( const sim::Plan& plan, sim::Result& res )
{
    // the ring does not initialise its data array: give it defined content, so that a read of a slot that was never written replays identically
    using ring_t = bluetoe::details::ring< Cap, int >;
    alignas( ring_t ) static unsigned char ring_memory[ sizeof( ring_t ) ];
    std::memset( ring_memory, 0xcd, sizeof ring_memory );
    ring_t& ring = *new ( ring_memory ) ring_t;
    std::vector< sim::Op > side_ops[ 2 ];
    std::vector< std::int64_t > decisions;
    for ( const auto& op : plan.ops )
    {
        if ( op.kind == k_sched ) { decisions = op.a; continue; }
        if ( op.kind == k_push ) side_ops[ 0 ].push_back( op );
        else if ( op.kind == k_pop ) side_ops[ 1 ].push_back( op );
    }
    if ( side_ops[ 0 ].size() > 6 ) side_ops[ 0 ].resize( 6 );
    if ( side_ops[ 1 ].size() > 6 ) side_ops[ 1 ].resize( 6 );
    scheduler s;
    s.mode = static_cast< int >( ( ( plan.knob( "mode" ) % 3 ) + 3 ) % 3 );
    s.decisions = &decisions;
    std::vector< hop > history;
    int next_value = 100;
    run_two_sides( s, side_ops[ 0 ].size(), side_ops[ 1 ].size(), [&]( int side, std::size_t i ) {
        hop h{};
        h.side = side;
        h.invoke = ++s.seq;
        if ( side == 0 )
        {
            h.kind = k_push;
            h.arg = ++next_value;
            h.r1 = ring.try_push( static_cast< int >( h.arg ) );
        }
        else
        {
            h.kind = k_pop;
            int out = -1;
            h.r1 = ring.try_pop( out );
            h.r2 = h.r1 ? out : -1;
        }
        h.ret = ++s.seq;
        history.push_back( h );
    } );
    // sequential drain
    for ( ;; )
    {
        hop h{};
        h.side = 1; h.kind = k_pop; h.invoke = ++s.seq;
        int out = -1;
        h.r1 = ring.try_pop( out );
        h.r2 = h.r1 ? out : -1;
        h.ret = ++s.seq;
        history.push_back( h );
        if ( !h.r1 || history.size() > 40 ) break;
    }
    for ( const auto& o : history )
        res.note( "%d %d %lld -> %lld %lld", o.side, o.kind, (long long)o.arg, (long long)o.r1, (long long)o.r2 );

    // accounting: every successfully pushed value popped exactly once, in push order
    std::vector< std::int64_t > pushed, popped;
    for ( const auto& o : history )
    {
        if ( o.kind == k_push && o.r1 ) pushed.push_back( o.arg );
        if ( o.kind == k_pop && o.r1 ) popped.push_back( o.r2 );
    }
    const std::string cfg = "capacity " + std::to_string( Cap ) + " mode " + std::to_string( s.mode );
    if ( pushed != popped )
    {
        std::string key = "fifo-accounting";
        if ( popped.size() < pushed.size() ) key = "lost";
        else if ( popped.size() > pushed.size() ) key = "duplicated-or-phantom";
        else key = "reordered-or-wrong-value";
        res.violate( "C30", "accounting", key, -1, "%s: pushed values and popped values differ (%zu pushed, %zu popped): %s", cfg.c_str(), pushed.size(), popped.size(), history_text( history ).c_str() );
    }
    else
    {
        using state = std::vector< std::int64_t >;
        const bool ok = linearizable< state >( history, state(), [&]( state& st, const hop& o ) -> bool {
            if ( o.kind == k_push )
            {
                if ( o.r1 ) { if ( st.size() >= Cap ) return false; st.push_back( o.arg ); return true; }
                return st.size() >= Cap;       // push may fail only when the ring holds its capacity
            }
            if ( o.r1 ) { if ( st.empty() || st.front() != o.r2 ) return false; st.erase( st.begin() ); return true; }
            return st.empty();                 // pop may fail only when nothing is pending
        } );
        if ( !ok )
            res.violate( "C30", "linearizability", "not-linearizable", -1, "%s: history is not linearizable w.r.t. a bounded FIFO: %s", cfg.c_str(), history_text( history ).c_str() );
    }
    bool push_failed = false, pop_failed_mid = false;
    for ( std::size_t i = 0; i + 1 < history.size(); ++i )
    {
        if ( history[ i ].kind == k_push && !history[ i ].r1 ) push_failed = true;
        if ( history[ i ].kind == k_pop && !history[ i ].r1 ) pop_failed_mid = true;
    }
    if ( push_failed ) res.probe( "push_failed_full" );
    if ( pop_failed_mid ) res.probe( "pop_failed_empty" );
    if ( s.switches ) res.fault( s.mode == 2 ? "context_switch" : "interrupt_fired", s.switches );
    res.probe( "yield_points", s.yields );
    res.nontrivial = s.switches >= 1 && pushed.size() >= 2;
}

// ------------------------------------------------------------------ C13: notification queue
struct empty_mixin {};
template < int... S >
using queue_t = bluetoe::notification_queue< std::tuple< std::integral_constant< int, S >... >, empty_mixin >;
using entry_type = bluetoe::details::notification_queue_entry_type;

struct nq_state {
    std::uint32_t pend_n = 0, pend_i = 0;
    bool outstanding = false;
    bool operator==( const nq_state& o ) const { return pend_n == o.pend_n && pend_i == o.pend_i && outstanding == o.outstanding; }
};

template < class Q >
void run_nq( Q& q, const std::vector< int >& sizes, const sim::Plan& plan, sim::Result& res )
{
    std::vector< int > level_of;
    for ( std::size_t l = 0; l != sizes.size(); ++l )
        for ( int k = 0; k != sizes[ l ]; ++k ) level_of.push_back( static_cast< int >( l ) );
    const std::size_t N = level_of.size();
    auto byte_of = [&]( std::size_t idx ) {
        std::size_t base = 0;
        for ( std::size_t l = 0; l != sizes.size(); ++l )
        {
            if ( idx < base + static_cast< std::size_t >( sizes[ l ] ) ) return static_cast< int >( l * 64 + ( idx - base ) * 2 / 8 );
            base += static_cast< std::size_t >( sizes[ l ] );
        }
        return -1;
    };

    std::vector< sim::Op > side_ops[ 2 ];       // side 0: consumer (link layer: dequeue, confirm), side 1: producer (application: notify / indicate)
    std::vector< sim::Op > setup;
    std::vector< std::int64_t > decisions;
    for ( const auto& op : plan.ops )
    {
        if ( op.kind == k_sched ) { decisions = op.a; continue; }
        if ( op.arg( 1 ) == 1 && ( op.kind == k_notify || op.kind == k_indicate ) ) { setup.push_back( op ); continue; }
        if ( op.kind == k_dequeue || op.kind == k_confirm ) side_ops[ 0 ].push_back( op );
        else if ( op.kind == k_notify || op.kind == k_indicate ) side_ops[ 1 ].push_back( op );
    }
    if ( side_ops[ 0 ].size() > 5 ) side_ops[ 0 ].resize( 5 );
    if ( side_ops[ 1 ].size() > 4 ) side_ops[ 1 ].resize( 4 );
    if ( setup.size() > 4 ) setup.resize( 4 );

    scheduler s;
    s.mode = static_cast< int >( ( ( plan.knob( "mode" ) % 3 ) + 3 ) % 3 );
    s.decisions = &decisions;
    std::vector< hop > history;
    const bool rmw_atomic = ( plan.knob( "rmw_atomic" ) & 1 ) != 0;
    sim_byte::rmw_atomic = rmw_atomic;
    const std::string granularity = rmw_atomic ? " op-granularity" : "";

    auto do_op = [&]( int side, const sim::Op& op ) {
        hop h{};
        h.side = side;
        h.kind = op.kind;
        h.arg = static_cast< std::int64_t >( ( ( op.arg( 0 ) % static_cast< std::int64_t >( N ) ) + static_cast< std::int64_t >( N ) ) % static_cast< std::int64_t >( N ) );
        h.invoke = ++s.seq;
        switch ( op.kind )
        {
        case k_notify:   h.r1 = q.queue_notification( static_cast< std::size_t >( h.arg ) ); break;
        case k_indicate: h.r1 = q.queue_indication( static_cast< std::size_t >( h.arg ) ); break;
        case k_dequeue: {
            const auto r = q.dequeue_indication_or_confirmation();
            h.r1 = r.first == entry_type::empty ? 0 : r.first == entry_type::notification ? 1 : 2;
            h.r2 = static_cast< std::int64_t >( r.second );
            break; }
        case k_confirm:  q.indication_confirmed(); break;
        }
        h.ret = ++s.seq;
        history.push_back( h );
    };

    // sequential setup (requests that are pending before the race starts)
    for ( const auto& op : setup ) do_op( 1, op );
    run_two_sides( s, side_ops[ 0 ].size(), side_ops[ 1 ].size(), [&]( int side, std::size_t i ) { do_op( side, side_ops[ side ][ i ] ); } );
    // sequential drain with a confirming client
    for ( unsigned guard = 0; guard < 4 * N + 8; ++guard )
    {
        do_op( 0, sim::Op( k_dequeue, {} ) );
        if ( history.back().r1 == 0 )
        {
            do_op( 0, sim::Op( k_confirm, {} ) );
            do_op( 0, sim::Op( k_dequeue, {} ) );
            if ( history.back().r1 == 0 ) break;
        }
    }
    for ( const auto& o : history )
        res.note( "%d %d %lld -> %lld %lld", o.side, o.kind, (long long)o.arg, (long long)o.r1, (long long)o.r2 );

    sim_byte::rmw_atomic = false;
    std::string cfg = "partition (";
    for ( std::size_t i = 0; i != sizes.size(); ++i ) cfg += ( i ? "," : "" ) + std::to_string( sizes[ i ] );
    cfg += ") mode " + std::to_string( s.mode ) + ( rmw_atomic ? " rmw-atomic" : "" );

    // accounting per (characteristic, kind): accepted requests == dequeued entries
    std::vector< int > accepted_n( N, 0 ), accepted_i( N, 0 ), deq_n( N, 0 ), deq_i( N, 0 );
    bool range_error = false;
    for ( const auto& o : history )
    {
        if ( o.kind == k_notify && o.r1 ) ++accepted_n[ static_cast< std::size_t >( o.arg ) ];
        if ( o.kind == k_indicate && o.r1 ) ++accepted_i[ static_cast< std::size_t >( o.arg ) ];
        if ( o.kind == k_dequeue && o.r1 )
        {
            if ( o.r2 < 0 || static_cast< std::size_t >( o.r2 ) >= N ) { range_error = true; continue; }
            ++( o.r1 == 1 ? deq_n : deq_i )[ static_cast< std::size_t >( o.r2 ) ];
        }
    }
    // which queue bytes were touched by both sides while they ran concurrently
    auto contended = [&]( std::size_t idx ) {
        bool consumer_touch = false, producer_touch = false;
        for ( const auto& o : history )
        {
            if ( ( o.kind == k_notify || o.kind == k_indicate ) && byte_of( static_cast< std::size_t >( o.arg ) ) == byte_of( idx ) ) producer_touch = true;
            if ( o.kind == k_dequeue && o.r1 && byte_of( static_cast< std::size_t >( o.r2 ) ) == byte_of( idx ) ) consumer_touch = true;
        }
        return consumer_touch && producer_touch;
    };
    bool bad = false;
    if ( range_error )
    {
        bad = true;
        res.violate( "C13", "accounting", "index-range", -1, "%s: dequeue returned an index outside the queue: %s", cfg.c_str(), history_text( history ).c_str() );
    }
    for ( std::size_t j = 0; j != N && !bad; ++j )
    {
        for ( int kind = 0; kind != 2 && !bad; ++kind )
        {
            const int acc = kind ? accepted_i[ j ] : accepted_n[ j ];
            const int deq = kind ? deq_i[ j ] : deq_n[ j ];
            if ( acc == deq ) continue;
            bad = true;
            const bool same_byte = contended( j );
            const std::string key = std::string( deq < acc ? "lost" : "duplicated" ) + ( same_byte ? " same-byte-rmw" : " no-shared-byte" ) + granularity;
            res.violate( "C13", "accounting", key, -1, "%s: %s %zu accepted %d times but dequeued %d times (%s): %s", cfg.c_str(), kind ? "indication" : "notification", j, acc, deq,
                         same_byte ? "producer and consumer both modified the queue byte of this characteristic" : "no other access to the queue byte of this characteristic", history_text( history ).c_str() );
        }
    }
    if ( !bad )
    {
        const bool ok = linearizable< nq_state >( history, nq_state(), [&]( nq_state& st, const hop& o ) -> bool {
            const std::uint32_t bit = o.kind == k_dequeue ? ( o.r1 ? 1u << o.r2 : 0 ) : 1u << o.arg;
            switch ( o.kind )
            {
            case k_notify:   if ( static_cast< bool >( o.r1 ) != !( st.pend_n & bit ) ) return false; st.pend_n |= bit; return true;
            case k_indicate: if ( static_cast< bool >( o.r1 ) != !( st.pend_i & bit ) ) return false; st.pend_i |= bit; return true;
            case k_confirm:  st.outstanding = false; return true;
            case k_dequeue:
                if ( o.r1 == 0 ) return st.pend_n == 0 && ( st.pend_i == 0 || st.outstanding );
                if ( o.r1 == 1 ) { if ( !( st.pend_n & bit ) ) return false; st.pend_n &= ~bit; return true; }
                if ( !( st.pend_i & bit ) || st.outstanding ) return false;
                st.pend_i &= ~bit; st.outstanding = true; return true;
            }
            return false;
        } );
        if ( !ok )
        {
            bool any_contended = false;
            for ( std::size_t j = 0; j != N; ++j ) any_contended = any_contended || contended( j );
            res.violate( "C13", "linearizability", std::string( any_contended ? "not-linearizable same-byte-rmw" : "not-linearizable no-shared-byte" ) + granularity, -1,
                         "%s: history is not linearizable w.r.t. the pending-set model (%s): %s", cfg.c_str(),
                         any_contended ? "producer and consumer both modified one queue byte" : "producer and consumer never modified the same queue byte", history_text( history ).c_str() );
        }
    }
    if ( s.switches ) res.fault( s.mode == 2 ? "context_switch" : "interrupt_fired", s.switches );
    res.probe( "yield_points", s.yields );
    bool shared = false;
    for ( const auto& a : side_ops[ 1 ] )
        for ( const auto& o : history )
            if ( o.side == 0 && o.kind == k_dequeue && o.r1 &&
                 byte_of( static_cast< std::size_t >( ( ( a.arg( 0 ) % static_cast< std::int64_t >( N ) ) + static_cast< std::int64_t >( N ) ) % static_cast< std::int64_t >( N ) ) ) == byte_of( static_cast< std::size_t >( o.r2 ) ) )
                shared = true;
    if ( shared ) res.probe( "producer_and_consumer_on_same_queue_byte" );
    res.nontrivial = s.switches >= 1 && shared;
}

const std::vector< std::vector< int > > partitions = { { 1 }, { 2 }, { 4 }, { 5 }, { 9 }, { 1, 1 }, { 1, 4 }, { 3, 1, 2 } };

struct irq_harness : sim::Harness
{
    const char* name() const override { return "irq_sim"; }
    std::vector< std::string > properties() const override { return { "C13", "C30" }; }
    std::string nontrivial_rule( const std::string& p ) const override
    {
        if ( p == "C30" )
            return "two real threads under a baton (one runs at a time), yield point before every atomic load/store and data access of details::ring<1..4,int>; "
                   "<=6 pushes of unique values against <=6 pops, ISR-family (an op of one side runs inside a yield point of the other; both directions) and free "
                   "interleaving schedules, then a sequential drain; non-trivial = at least one context switch / interrupt inside an op and >=2 successful pushes; "
                   "distinct = distinct histories (trace hash over ops, results and order)";
        return "two real threads under a baton, yield point before the load and before the store of every access to the notification queue's bytes (a read-modify-write "
               "is load, yield, store); <=4 producer ops (queue_notification / queue_indication) against <=5 consumer ops (dequeue, confirm) on 8 priority partitions, "
               "optional sequential set-up requests, ISR-family and free schedules, then a sequential drain with a confirming client; non-trivial = at least one switch "
               "inside an op and producer and consumer touched the same queue byte; distinct = distinct histories";
    }
    std::vector< std::string > real_components() const override { return { "bluetoe/utility/ring.hpp (index type and data accesses through the guarded seam)", "bluetoe/notification_queue.hpp (queue bytes through the guarded seam)" }; }
    std::vector< std::string > stub_components() const override { return { "memory model: sequential consistency only (a serialising scheduler cannot show weak-memory reorderings)" }; }
    std::uint64_t default_runs( const std::string&, bool thorough ) const override { return thorough ? 1500000 : 40000; }
    std::vector< std::string > op_names() const override { return { "push", "pop", "notify", "indicate", "dequeue", "confirm", "schedule" }; }

    sim::Plan generate( std::uint64_t seed, const std::string& property, bool thorough ) const override
    {
        sim::Rng rng( seed );
        sim::Plan p;
        p.harness = name(); p.property = property; p.seed = seed;
        p.knobs[ "mode" ] = static_cast< std::int64_t >( rng.below( 3 ) );
        if ( property == "C30" )
        {
            p.config = static_cast< int >( rng.below( 4 ) );
            const unsigned pushes = static_cast< unsigned >( rng.range( 1, thorough ? 6 : 5 ) ), pops = static_cast< unsigned >( rng.range( 1, thorough ? 6 : 5 ) );
            for ( unsigned i = 0; i != pushes; ++i ) p.ops.push_back( sim::Op( k_push, {} ) );
            for ( unsigned i = 0; i != pops; ++i ) p.ops.push_back( sim::Op( k_pop, {} ) );
        }
        else
        {
            p.config = static_cast< int >( rng.below( partitions.size() ) );
            p.knobs[ "rmw_atomic" ] = rng.chance( 50 ) ? 1 : 0;
            std::size_t n = 0;
            for ( int x : partitions[ static_cast< std::size_t >( p.config ) ] ) n += static_cast< std::size_t >( x );
            // indices are biased to a narrow window so that producer and consumer meet on one byte
            const std::int64_t base = rng.range( 0, static_cast< std::int64_t >( n ) - 1 );
            const std::int64_t width = rng.range( 1, 4 );
            auto idx = [&]{ return ( base + rng.range( 0, width - 1 ) ) % static_cast< std::int64_t >( n ); };
            const unsigned setup = static_cast< unsigned >( rng.range( 0, 3 ) );
            for ( unsigned i = 0; i != setup; ++i ) p.ops.push_back( sim::Op( rng.chance( 70 ) ? k_notify : k_indicate, { idx(), 1 } ) );
            const unsigned prod = static_cast< unsigned >( rng.range( 1, thorough ? 4 : 3 ) ), cons = static_cast< unsigned >( rng.range( 1, thorough ? 5 : 4 ) );
            for ( unsigned i = 0; i != prod; ++i ) p.ops.push_back( sim::Op( rng.chance( 70 ) ? k_notify : k_indicate, { idx(), 0 } ) );
            for ( unsigned i = 0; i != cons; ++i ) p.ops.push_back( sim::Op( rng.chance( 80 ) ? k_dequeue : k_confirm, {} ) );
        }
        // the schedule: one decision per yield point; density varies per run
        sim::Op sched( k_sched, {} );
        const unsigned density = static_cast< unsigned >( rng.pick( std::vector< int >{ 3, 8, 15, 30, 50 } ) );
        const unsigned len = static_cast< unsigned >( rng.range( 8, 64 ) );
        for ( unsigned i = 0; i != len; ++i ) sched.a.push_back( rng.chance( density ) ? 1 : 0 );
        p.ops.push_back( sched );
        return p;
    }

    void execute( const sim::Plan& plan, sim::Result& res ) const override
    {
        res.note( "config %d mode %lld", plan.config, (long long)plan.knob( "mode" ) );
        if ( plan.property == "C30" )
        {
            switch ( ( ( plan.config % 4 ) + 4 ) % 4 )
            {
            case 0: run_ring< 1 >( plan, res ); break;
            case 1: run_ring< 2 >( plan, res ); break;
            case 2: run_ring< 3 >( plan, res ); break;
            case 3: run_ring< 4 >( plan, res ); break;
            }
            return;
        }
        const std::size_t c = static_cast< std::size_t >( ( ( plan.config % 8 ) + 8 ) % 8 );
        switch ( c )
        {
        case 0: { queue_t< 1 > q;       run_nq( q, partitions[ c ], plan, res ); break; }
        case 1: { queue_t< 2 > q;       run_nq( q, partitions[ c ], plan, res ); break; }
        case 2: { queue_t< 4 > q;       run_nq( q, partitions[ c ], plan, res ); break; }
        case 3: { queue_t< 5 > q;       run_nq( q, partitions[ c ], plan, res ); break; }
        case 4: { queue_t< 9 > q;       run_nq( q, partitions[ c ], plan, res ); break; }
        case 5: { queue_t< 1, 1 > q;    run_nq( q, partitions[ c ], plan, res ); break; }
        case 6: { queue_t< 1, 4 > q;    run_nq( q, partitions[ c ], plan, res ); break; }
        case 7: { queue_t< 3, 1, 2 > q; run_nq( q, partitions[ c ], plan, res ); break; }
        }
    }

    std::vector< sim::Op > simplify( const sim::Plan& plan, std::size_t i ) const override
    {
        std::vector< sim::Op > r;
        const sim::Op& op = plan.ops[ i ];
        if ( op.kind == k_sched )
        {
            // fewer switches, shorter schedule
            for ( std::size_t k = 0; k != op.a.size(); ++k )
                if ( op.a[ k ] ) { sim::Op c = op; c.a[ k ] = 0; r.push_back( c ); }
            if ( op.a.size() > 1 ) { sim::Op c = op; c.a.pop_back(); r.push_back( c ); }
        }
        else if ( op.arg( 0 ) > 0 ) { sim::Op c = op; c.a[ 0 ] = op.arg( 0 ) - 1; r.push_back( c ); }
        return r;
    }
};

}

int main( int argc, char** argv )
{
    irq::irq_harness h;
    return sim::sim_main( argc, argv, h );
}
