// l2cap_sim - L2CAP channel multiplexing and the signaling channel (C31)
//
// Parties: the central (frames with any length field, CID and payload; signaling commands and responses with matching and
// foreign identifiers), the application (queues Connection Parameter Update Requests), the link layer (hands received frames
// over, polls for pending output, sometimes has no transmit buffer and retries later).
//
// Real code: bluetoe::details::l2cap<> (handle_l2cap_input, transmit_pending_l2cap_output) and bluetoe::l2cap::signaling_channel<>.
// Stubs: the link layer (buffer allocation and commit), two recording channels on the ATT and SM channel ids.
#include <iterator>
#include <array>
#include <algorithm>
#include <cstring>
#include <memory>
#include <tuple>
#include <deque>

#include <bluetoe/l2cap.hpp>
#include <bluetoe/l2cap_signaling_channel.hpp>
#include <bluetoe/link_state.hpp>

#include <functional>

#include "../sim/sim.hpp"

namespace {

using bytes = std::vector< std::uint8_t >;

struct delivery { std::uint16_t cid; bytes payload; };
std::vector< delivery > g_delivered;       // what reached a recording channel
unsigned g_reply_mode = 0;                 // how the recording channels answer: 0 nothing, 1 echo (clipped to the buffer), 2 as much as the buffer takes

// a channel that records its input and answers as the knob says
template < std::uint16_t Cid, std::size_t Mtu >
struct recording_channel
{
    static constexpr std::uint16_t channel_id               = Cid;
    static constexpr std::size_t   minimum_channel_mtu_size = Mtu;
    static constexpr std::size_t   maximum_channel_mtu_size = Mtu;

    template < typename ConnectionData >
    void l2cap_input( const std::uint8_t* input, std::size_t in_size, std::uint8_t* output, std::size_t& out_size, ConnectionData& )
    {
        g_delivered.push_back( delivery{ Cid, bytes( input, input + in_size ) } );
        const std::size_t room = out_size;
        switch ( g_reply_mode )
        {
        case 1: out_size = std::min( in_size, room ); std::copy( input, input + out_size, output ); break;
        case 2: out_size = room; std::memset( output, 0x5a, room ); break;
        default: out_size = 0; break;
        }
    }

    template < typename ConnectionData >
    void l2cap_output( std::uint8_t*, std::size_t& out_size, ConnectionData& ) { out_size = 0; }

    template < class PreviousData >
    using channel_data_t = PreviousData;
};

using att_channel = recording_channel< 4, 23 >;
using sm_channel  = recording_channel< 6, 65 >;
using sig_channel = bluetoe::l2cap::signaling_channel<>;

// the link layer stub: exactly sized heap blocks (ASan), optional "no buffer now"
struct link_layer_stub : bluetoe::details::l2cap< link_layer_stub, bluetoe::details::link_state, att_channel, sig_channel, sm_channel >
{
    bool                                    no_buffer = false;
    std::unique_ptr< std::uint8_t[] >       block;
    std::size_t                             block_size = 0;
    bool                                    allocated = false;
    std::vector< bytes >                    committed;
    std::vector< std::string >              errors;
    unsigned                                allocations = 0;

    std::pair< std::size_t, std::uint8_t* > allocate_l2cap_output_buffer( std::size_t payload_size )
    {
        ++allocations;
        if ( no_buffer ) return { 0, nullptr };
        // the link layer hands out the requested payload size plus the L2CAP header, not a byte more
        block_size = payload_size + 4;
        block.reset( new std::uint8_t[ block_size ] );
        std::memset( block.get(), 0xa5, block_size );
        allocated = true;
        return { block_size, block.get() };
    }

    void commit_l2cap_output_buffer( std::pair< std::size_t, std::uint8_t* > b )
    {
        if ( !allocated || b.second != block.get() ) { errors.push_back( "commit of a buffer that was not allocated" ); return; }
        if ( b.first > block_size ) { errors.push_back( "committed " + std::to_string( b.first ) + " bytes of a " + std::to_string( block_size ) + " byte buffer" ); b.first = block_size; }
        committed.push_back( bytes( b.second, b.second + b.first ) );
        allocated = false;
    }
};

enum { op_frame, op_sig_command, op_sig_response, op_queue_request, op_poll, op_buffer, op_cycles, op_count };

struct l2cap_harness : sim::Harness
{
    const char* name() const override { return "l2cap_sim"; }
    std::vector< std::string > properties() const override { return { "C31" }; }
    std::string nontrivial_rule( const std::string& ) const override
    {
        return "seeded interleavings of central frames (length field right / wrong, channel ids 0..7 and random, payloads up to 70 bytes), signaling commands and responses (matching, foreign and zero identifiers, all lengths), "
               "application requests for a connection parameter update, link layer polls and phases without a transmit buffer, against l2cap<> with the real signaling channel and two recording channels; "
               "non-trivial: a parameter update request was transmitted and a response (matching or not) arrived, or a frame was delivered to a channel; distinct = distinct trace hashes";
    }
    std::vector< std::string > real_components() const override { return { "bluetoe/l2cap.hpp (handle_l2cap_input, transmit_pending_l2cap_output)", "bluetoe/link_layer/include/bluetoe/l2cap_signaling_channel.hpp" }; }
    std::vector< std::string > stub_components() const override { return { "link layer (buffer allocation / commit, exactly sized heap blocks)", "ATT and SM channels (recording channels with configurable answers)" }; }
    std::uint64_t default_runs( const std::string&, bool thorough ) const override { return thorough ? 3000000 : 100000; }
    std::vector< std::string > op_names() const override { return { "frame", "sig_command", "sig_response", "queue_request", "poll", "buffer", "cycles" }; }

    sim::Plan generate( std::uint64_t seed, const std::string& property, bool thorough ) const override
    {
        sim::Rng rng( seed );
        sim::Plan p;
        p.harness = name(); p.property = property; p.seed = seed;
        p.knobs[ "reply_mode" ] = static_cast< std::int64_t >( rng.below( 3 ) );
        const unsigned n = static_cast< unsigned >( rng.range( 3, thorough ? 60 : 30 ) );
        for ( unsigned i = 0; i != n; ++i )
        {
            const unsigned x = static_cast< unsigned >( rng.below( 100 ) );
            if ( x < 25 )
            {
                // a frame for some channel: a0 cid, a1 delta of the length field
                const std::int64_t cid = rng.chance( 75 ) ? rng.range( 3, 7 ) : ( rng.chance( 50 ) ? 0 : rng.range( 0, 0xffff ) );
                sim::Op o( op_frame, { cid, rng.chance( 75 ) ? 0 : rng.range( -4, 4 ) } );
                const std::size_t len = static_cast< std::size_t >( rng.chance( 85 ) ? rng.range( 0, 27 ) : rng.range( 0, 70 ) );
                for ( std::size_t k = 0; k != len; ++k ) o.bytes.push_back( rng.byte() );
                if ( rng.chance( 5 ) ) o.a.push_back( rng.range( 0, 3 ) );     // a2: truncate the whole frame to fewer than 4 bytes
                p.ops.push_back( o );
            }
            else if ( x < 40 )
            {
                // a signaling command that is no answer to us: a0 code, a1 identifier, a2 length delta
                static const int codes[] = { 0x12, 0x14, 0x16, 0x01, 0x00, 0x13, 0x06, 0xff };
                sim::Op o( op_sig_command, { rng.chance( 80 ) ? codes[ rng.below( 8 ) ] : rng.range( 0, 255 ), rng.chance( 20 ) ? 0 : rng.range( 1, 255 ), rng.chance( 80 ) ? 0 : rng.range( -6, 6 ) } );
                const std::size_t len = static_cast< std::size_t >( rng.range( 0, 10 ) );
                for ( std::size_t k = 0; k != len; ++k ) o.bytes.push_back( rng.byte() );
                p.ops.push_back( o );
            }
            else if ( x < 58 )
                // a Connection Parameter Update Response: a0 identifier relative to the one in use (0 = matching), a1 result, a2 length delta
                p.ops.push_back( sim::Op( op_sig_response, { rng.chance( 60 ) ? 0 : rng.range( -3, 3 ), rng.range( 0, 1 ), rng.chance( 85 ) ? 0 : rng.range( -6, 4 ) } ) );
            else if ( x < 74 )
                p.ops.push_back( sim::Op( op_queue_request, { rng.range( 6, 3200 ), rng.range( 6, 3200 ), rng.range( 0, 499 ), rng.range( 10, 3200 ) } ) );
            else if ( x < 92 )
                p.ops.push_back( sim::Op( op_poll, {} ) );
            else if ( x < 97 )
                p.ops.push_back( sim::Op( op_buffer, { rng.range( 0, 1 ) } ) );
            else
                // a0 complete request / poll / matching response rounds in a row: long lived connections (the identifier is one byte)
                p.ops.push_back( sim::Op( op_cycles, { rng.chance( 70 ) ? rng.range( 1, 8 ) : rng.range( 100, 600 ) } ) );
        }
        return p;
    }

    void execute( const sim::Plan& plan, sim::Result& res ) const override
    {
        g_delivered.clear();
        g_reply_mode = static_cast< unsigned >( ( ( plan.knob( "reply_mode" ) % 3 ) + 3 ) % 3 );
        std::unique_ptr< link_layer_stub > ll( new link_layer_stub );
        link_layer_stub::connection_data_t connection;

        // ---- model of the signaling channel
        enum { idle, queued, transmitted } state = idle;
        std::uint16_t params[ 4 ] = { 0 };
        int  current_id = -1;               // identifier of the request on the air
        int  last_completed_id = -1;
        unsigned requests_sent = 0, responses = 0, deliveries = 0, rejects = 0;
        bool stray_completed = false;

        auto state_name = [&]{ return state == idle ? "idle" : state == queued ? "queued" : "transmitted"; };

        // does the implementation consider the request finished?  asked on a copy, so the question has no effect
        auto impl_idle = [&]() {
            std::unique_ptr< link_layer_stub > copy( new link_layer_stub );
            static_cast< sig_channel& >( *copy ) = static_cast< const sig_channel& >( *ll );
            return static_cast< sig_channel& >( *copy ).connection_parameter_update_request( 1, 2, 3, 4 );
        };

        auto check_state = [&]( long idx, const char* after ) {
            const bool is_idle = impl_idle();
            if ( is_idle != ( state == idle ) )
            {
                if ( is_idle )
                    res.violate( "C31", "request-completed-without-matching-response", std::string( "request-completed-without-matching-response after " ) + after + " in " + state_name(), idx,
                                 "after %s the signaling channel takes a new request although the model has the previous one %s (identifier %d): only the matching response completes a request", after, state_name(), current_id );
                else
                    res.violate( "C31", "request-stuck", std::string( "request-stuck after " ) + after, idx, "after %s the signaling channel refuses a new request although none is outstanding", after );
                state = is_idle ? idle : transmitted;
                if ( is_idle ) stray_completed = true;
            }
        };

        // every committed output is looked at once
        std::size_t seen = 0;
        auto look_at_output = [&]( long idx, int reply_to_cid, const bytes* request, bool request_rejectable, int request_identifier ) {
            for ( const auto& e : ll->errors ) res.violate( "C31", "buffer", "buffer " + e.substr( 0, 9 ), idx, "%s", e.c_str() );
            ll->errors.clear();
            for ( ; seen < ll->committed.size(); ++seen )
            {
                const bytes& f = ll->committed[ seen ];
                res.note_bytes( "  ->", f.data(), f.size() );
                if ( f.size() < 4 ) { res.violate( "C31", "reply-framing", "reply-framing short", idx, "committed frame of %zu bytes", f.size() ); continue; }
                const unsigned len = f[ 0 ] | ( f[ 1 ] << 8 ), cid = f[ 2 ] | ( f[ 3 ] << 8 );
                if ( len + 4 != f.size() )
                    res.violate( "C31", "reply-framing", "reply-framing length", idx, "committed frame %s: length field %u, %zu bytes follow the header", sim::hex( f ).c_str(), len, f.size() - 4 );
                if ( reply_to_cid >= 0 )
                {
                    if ( static_cast< int >( cid ) != reply_to_cid )
                        res.violate( "C31", "reply-cid", "reply-cid", idx, "the answer to a frame on channel 0x%04x was sent on channel 0x%04x", reply_to_cid, cid );
                    if ( reply_to_cid == 5 )
                    {
                        // the only answer the signaling channel gives is a Command Reject with the identifier of the command
                        ++rejects;
                        const bool well_formed = f.size() == 10 && f[ 4 ] == 0x01 && f[ 6 ] == 2 && f[ 7 ] == 0;
                        if ( !well_formed || !request_rejectable || f[ 5 ] == 0 || static_cast< int >( f[ 5 ] ) != request_identifier )
                            res.violate( "C31", "command-reject", !request_rejectable ? "command-reject unexpected" : "command-reject content", idx, "signaling command %s was answered with %s (a Command Reject echoing the non zero identifier %d is %s)",
                                         request ? sim::hex( *request ).c_str() : "", sim::hex( f ).c_str(), request_identifier, request_rejectable ? "due" : "not due" );
                    }
                }
                else
                {
                    // output from a poll: the queued request, once
                    if ( cid != 5 || f.size() != 16 || f[ 4 ] != 0x12 )
                    {
                        res.violate( "C31", "unsolicited-output", "unsolicited-output", idx, "polling produced %s", sim::hex( f ).c_str() );
                        continue;
                    }
                    ++requests_sent;
                    if ( state != queued )
                        res.violate( "C31", "request-sent-twice", std::string( "request-sent-twice in " ) + state_name(), idx, "a Connection Parameter Update Request was sent although none is queued (state %s): %s", state_name(), sim::hex( f ).c_str() );
                    const int id = f[ 5 ];
                    if ( id == 0 )
                        res.violate( "C31", "identifier-zero", "identifier-zero", idx, "request with identifier 0: %s", sim::hex( f ).c_str() );
                    if ( id == last_completed_id && !stray_completed )
                        res.violate( "C31", "identifier-not-advanced", "identifier-not-advanced", idx, "the request uses identifier %d again, which the previous, completed request used", id );
                    const unsigned got[ 4 ] = { unsigned( f[ 8 ] | ( f[ 9 ] << 8 ) ), unsigned( f[ 10 ] | ( f[ 11 ] << 8 ) ), unsigned( f[ 12 ] | ( f[ 13 ] << 8 ) ), unsigned( f[ 14 ] | ( f[ 15 ] << 8 ) ) };
                    if ( f[ 6 ] != 8 || f[ 7 ] != 0 || got[ 0 ] != params[ 0 ] || got[ 1 ] != params[ 1 ] || got[ 2 ] != params[ 2 ] || got[ 3 ] != params[ 3 ] )
                        res.violate( "C31", "request-content", "request-content", idx, "request %s does not carry the queued parameters %u %u %u %u", sim::hex( f ).c_str(), params[ 0 ], params[ 1 ], params[ 2 ], params[ 3 ] );
                    current_id = id;
                    state = transmitted;
                }
            }
        };

        auto send = [&]( long idx, const bytes& frame, int cid, bool well_formed, const bytes* sig_payload, bool rejectable, int identifier ) {
            // exactly sized input block
            std::unique_ptr< std::uint8_t[] > in( new std::uint8_t[ frame.size() ] );
            std::copy( frame.begin(), frame.end(), in.get() );
            const std::size_t delivered_before = g_delivered.size();
            const std::size_t committed_before = ll->committed.size();
            const bool consumed = ll->handle_l2cap_input( in.get(), frame.size(), connection );
            const bool known_cid = cid == 4 || cid == 5 || cid == 6;
            if ( !consumed )
            {
                res.probe( "input_deferred_no_buffer" );
                if ( !ll->no_buffer && well_formed )
                    res.violate( "C31", "input-not-consumed", "input-not-consumed", idx, "frame %s was not consumed although a buffer is available", sim::hex( frame ).c_str() );
                if ( g_delivered.size() != delivered_before || ll->committed.size() != committed_before )
                    res.violate( "C31", "input-not-consumed", "input-not-consumed but-delivered", idx, "frame %s was reported as not consumed but had an effect", sim::hex( frame ).c_str() );
                return false;
            }
            // delivery to exactly the named channel, only for a matching length field
            const bool expect_delivery = well_formed && ( cid == 4 || cid == 6 );
            if ( g_delivered.size() - delivered_before != ( expect_delivery ? 1u : 0u ) )
                res.violate( "C31", "delivery", expect_delivery ? "delivery missing" : ( !well_formed ? "delivery length-mismatch" : "delivery unknown-cid" ), idx, "frame %s (channel 0x%04x, length field %s): %zu deliveries to the channels, %u expected",
                             sim::hex( frame ).c_str(), cid, well_formed ? "right" : "wrong", g_delivered.size() - delivered_before, expect_delivery ? 1u : 0u );
            else if ( expect_delivery )
            {
                ++deliveries;
                const delivery& d = g_delivered.back();
                if ( d.cid != cid || d.payload != bytes( frame.begin() + 4, frame.end() ) )
                    res.violate( "C31", "delivery", "delivery wrong-channel-or-content", idx, "frame %s was delivered to channel %u as %s", sim::hex( frame ).c_str(), d.cid, sim::hex( d.payload ).c_str() );
            }
            if ( ( !well_formed || !known_cid ) && ll->committed.size() != committed_before )
                res.violate( "C31", "reply-to-dropped-frame", !well_formed ? "reply-to-dropped-frame length-mismatch" : "reply-to-dropped-frame unknown-cid", idx, "frame %s must be dropped but was answered", sim::hex( frame ).c_str() );
            look_at_output( idx, cid, sig_payload, rejectable, identifier );
            return true;
        };

        std::function< void( const sim::Op&, long ) > do_op = [&]( const sim::Op& op, long idx )
        {
            switch ( ( ( op.kind % op_count ) + op_count ) % op_count )
            {
            case op_cycles: {
                const std::int64_t n = std::max< std::int64_t >( 1, std::min< std::int64_t >( op.arg( 0 ), 700 ) );
                for ( std::int64_t k = 0; k != n && res.violations.empty(); ++k )
                {
                    do_op( sim::Op( op_queue_request, { 6 + k % 100, 200, 0, 100 } ), idx );
                    do_op( sim::Op( op_poll, {} ), idx );
                    do_op( sim::Op( op_sig_response, { 0, k & 1, 0 } ), idx );
                }
                break; }
            case op_frame: {
                int cid = static_cast< int >( op.arg( 0 ) & 0xffff );
                bytes payload = op.bytes;
                if ( cid == 5 ) cid = 7;        // signaling commands have their own ops
                bytes f;
                const int len_field = static_cast< int >( payload.size() ) + static_cast< int >( op.arg( 1 ) );
                const bool well_formed = op.arg( 1 ) == 0 && op.a.size() < 3;
                f.push_back( static_cast< std::uint8_t >( len_field ) ); f.push_back( static_cast< std::uint8_t >( len_field >> 8 ) );
                f.push_back( static_cast< std::uint8_t >( cid ) ); f.push_back( static_cast< std::uint8_t >( cid >> 8 ) );
                f.insert( f.end(), payload.begin(), payload.end() );
                if ( op.a.size() >= 3 ) f.resize( static_cast< std::size_t >( ( ( op.arg( 2 ) % 4 ) + 4 ) % 4 ) );
                res.note_bytes( "frame", f.data(), f.size() );
                send( idx, f, cid, well_formed, nullptr, false, -1 );
                break; }
            case op_sig_command:
            case op_sig_response: {
                bytes c;
                bool is_matching_response = false;
                if ( ( ( op.kind % op_count ) + op_count ) % op_count == op_sig_response )
                {
                    const int id = ( ( ( current_id < 0 ? 1 : current_id ) + static_cast< int >( op.arg( 0 ) ) ) % 256 + 256 ) % 256;
                    c = { 0x13, static_cast< std::uint8_t >( id ), 2, 0, static_cast< std::uint8_t >( op.arg( 1 ) ), 0 };
                    const std::int64_t d = op.arg( 2 );
                    if ( d < 0 ) c.resize( c.size() - std::min< std::size_t >( c.size(), static_cast< std::size_t >( -d ) ) );
                    for ( std::int64_t k = 0; k < d; ++k ) c.push_back( 0 );
                    is_matching_response = state == transmitted && id == current_id && d == 0;
                    ++responses;
                }
                else
                {
                    c = { static_cast< std::uint8_t >( op.arg( 0 ) ), static_cast< std::uint8_t >( op.arg( 1 ) ) };
                    c.push_back( static_cast< std::uint8_t >( op.bytes.size() + op.arg( 2 ) ) ); c.push_back( 0 );
                    c.insert( c.end(), op.bytes.begin(), op.bytes.end() );
                    if ( op.arg( 2 ) < -3 ) c.resize( c.size() - std::min< std::size_t >( c.size(), static_cast< std::size_t >( -op.arg( 2 ) - 3 ) ) );    // cut short, down to nothing
                    is_matching_response = c.size() == 6 && c[ 0 ] == 0x13 && state == transmitted && c[ 1 ] == current_id && c[ 2 ] == 2 && c[ 3 ] == 0;
                }
                bytes f;
                f.push_back( static_cast< std::uint8_t >( c.size() ) ); f.push_back( 0 ); f.push_back( 5 ); f.push_back( 0 );
                f.insert( f.end(), c.begin(), c.end() );
                res.note_bytes( is_matching_response ? "matching response" : "signaling", f.data(), f.size() );
                // what must come back: nothing for the matching response, nothing without an identifier, a Command Reject for every other command;
                // a response (code 0x13) that matches nothing may be rejected or dropped
                const bool is_stray_response = !c.empty() && c[ 0 ] == 0x13 && !is_matching_response;
                const bool has_identifier = c.size() >= 2 && c[ 1 ] != 0;
                const bool rejectable = !is_matching_response && has_identifier;
                const std::size_t committed_before = ll->committed.size();
                const bool consumed = send( idx, f, 5, true, &c, rejectable, has_identifier ? c[ 1 ] : -1 );
                if ( consumed )
                {
                    if ( rejectable && !is_stray_response && ll->committed.size() == committed_before )
                        res.violate( "C31", "command-not-rejected", "command-not-rejected", idx, "signaling command %s got no Command Reject", sim::hex( c ).c_str() );
                    if ( is_matching_response ) { last_completed_id = current_id; state = idle; stray_completed = false; }
                    check_state( idx, is_matching_response ? "the matching response" : is_stray_response ? "a response that does not match" : "a command" );
                }
                break; }
            case op_queue_request: {
                const bool expect = state == idle;
                const bool got = ll->connection_parameter_update_request( static_cast< std::uint16_t >( op.arg( 0 ) ), static_cast< std::uint16_t >( op.arg( 1 ) ), static_cast< std::uint16_t >( op.arg( 2 ) ), static_cast< std::uint16_t >( op.arg( 3 ) ) );
                res.note( "application queues request -> %d", got );
                if ( got != expect )
                    res.violate( "C31", "queue-result", std::string( "queue-result in " ) + state_name(), idx, "connection_parameter_update_request() returned %d in state %s", got, state_name() );
                if ( got ) { for ( int k = 0; k != 4; ++k ) params[ k ] = static_cast< std::uint16_t >( op.arg( static_cast< std::size_t >( k ) ) ); state = queued; }
                break; }
            case op_poll: {
                res.note( "poll%s", ll->no_buffer ? " (no buffer)" : "" );
                const std::size_t committed_before = ll->committed.size();
                ll->transmit_pending_l2cap_output( connection );
                look_at_output( idx, -1, nullptr, false, -1 );
                if ( !ll->no_buffer && state == queued && ll->committed.size() == committed_before )
                    res.violate( "C31", "request-not-sent", "request-not-sent", idx, "a queued request was not sent by a poll with a free buffer" );
                if ( ll->no_buffer && ll->committed.size() != committed_before )
                    res.violate( "C31", "buffer", "buffer output-without-buffer", idx, "output although no buffer was handed out" );
                break; }
            case op_buffer:
                ll->no_buffer = ( op.arg( 0 ) & 1 ) != 0;
                res.note( "link layer: %s", ll->no_buffer ? "no transmit buffer" : "transmit buffer available" );
                if ( ll->no_buffer ) res.fault( "no_transmit_buffer" );
                break;
            }
        };
        long idx = -1;
        for ( const auto& op : plan.ops )
        {
            ++idx;
            do_op( op, idx );
        }
        if ( requests_sent ) res.probe( "update_requests_sent", requests_sent );
        if ( rejects ) res.probe( "command_rejects", rejects );
        if ( deliveries ) res.probe( "frames_delivered", deliveries );
        res.nontrivial = ( requests_sent && responses ) || deliveries;
        res.steps = plan.ops.size();
    }

    bool memory_safety_property( const std::string& ) const override { return true; }

    std::vector< sim::Op > simplify( const sim::Plan& plan, std::size_t i ) const override
    {
        std::vector< sim::Op > r;
        const sim::Op& op = plan.ops[ i ];
        if ( !op.bytes.empty() ) { sim::Op c = op; c.bytes.resize( op.bytes.size() / 2 ); r.push_back( c ); }
        if ( op.kind == op_cycles && op.arg( 0 ) > 1 ) { sim::Op c = op; c.a[ 0 ] = op.arg( 0 ) / 2; r.push_back( c ); c.a[ 0 ] = op.arg( 0 ) - 1; r.push_back( c ); return r; }
        for ( std::size_t a = 0; a != op.a.size(); ++a )
            if ( op.a[ a ] != 0 && !( op.kind == op_frame && a == 0 ) ) { sim::Op c = op; c.a[ a ] = 0; r.push_back( c ); }
        return r;
    }
};

}

int main( int argc, char** argv )
{
    l2cap_harness h;
    return sim::sim_main( argc, argv, h );
}
