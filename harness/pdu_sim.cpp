// pdu_sim - link layer data PDU buffer between a reference central, a faulty air and the link layer (C15, C16, C17)
//
// Parties: link layer (allocate/commit transmit PDUs, next_received/free_received, max size changes, stop, reset),
// radio ISR (allocate_receive_buffer, then exactly the nRF52 decision table: no room or CRC error -> next_transmit(),
// MIC ok -> received(), MIC not ok -> acknowledge()), a reference central ARQ written from Vol 6 Part B 4.5.9, and the air
// (loss / CRC error in either direction, MIC error).  Real code: ll_data_pdu_buffer + pdu_ring_buffer with the default and
// the nRF encrypted PDU layout.  Stub: the radio (counters, MIC decision from the two sides' packet counters).
//
// Configurations 10..19 replace the re-stated decision table by the REAL nRF52 radio front end (nrf52.hpp: schedule_connection_event(),
// radio_interrupt_handler() in its connection event states, run(), the packet counter forwarding of nrf52_radio< ..., true, ... >) on the
// simulated Hardware of harness/nrf_front.hpp: the world fills the receive buffer the front end configured, sets (anchor, PDU / MIC, CRC)
// and fires the radio interrupt; what the front end configured as the final transmit is what goes on the air.
#include "nrf_front.hpp"
#include <iterator>
#include <array>
#include <algorithm>
#include <cstring>
#include <deque>
#include <memory>

#include <bluetoe/ll_data_pdu_buffer.hpp>
#include <bluetoe/nrf.hpp>

#include "../sim/sim.hpp"

namespace {

using bluetoe::link_layer::read_buffer;
using bluetoe::link_layer::write_buffer;

template < std::size_t Tx, std::size_t Rx, bool Enc >
struct radio_stub;

}

namespace bluetoe { namespace link_layer {
    template < std::size_t Tx, std::size_t Rx >
    struct pdu_layout_by_radio< radio_stub< Tx, Rx, true > > {
        using pdu_layout = bluetoe::nrf_details::encrypted_pdu_layout;
    };
} }

namespace {

template < std::size_t Tx, std::size_t Rx, bool Enc >
struct radio_stub : bluetoe::link_layer::ll_data_pdu_buffer< Tx, Rx, radio_stub< Tx, Rx, Enc > >
{
    using base = bluetoe::link_layer::ll_data_pdu_buffer< Tx, Rx, radio_stub< Tx, Rx, Enc > >;
    struct lock_guard { lock_guard() {} ~lock_guard() {} };
    std::uint64_t rx_counter = 0, tx_counter = 0;
    void increment_receive_packet_counter() { ++rx_counter; }
    void increment_transmit_packet_counter() { ++tx_counter; }
    // the radio side of the interface is protected
    read_buffer  isr_allocate_receive_buffer() const { return this->allocate_receive_buffer(); }
    write_buffer isr_received( read_buffer b )          { return this->received( b ); }
    write_buffer isr_acknowledge( read_buffer b )       { return this->acknowledge( b ); }
    write_buffer isr_next_transmit()                    { return this->next_transmit(); }
};

// ---- the radio between air and buffer: the harness's re-statement of the decision table ...
template < std::size_t Tx_, std::size_t Rx_, bool Enc_ >
struct stub_port
{
    static constexpr std::size_t Tx = Tx_, Rx = Rx_;
    static constexpr bool Enc = Enc_, has_counters = true, real = false;
    using radio_t = radio_stub< Tx, Rx, Enc >;
    std::unique_ptr< radio_t > holder{ new radio_t };
    radio_t& radio() { return *holder; }
    std::uint64_t rx_counter() const { return holder->rx_counter; }
    std::uint64_t tx_counter() const { return holder->tx_counter; }
    void reset_counters() { holder->rx_counter = holder->tx_counter = 0; }
    void nothing_heard( sim::Result& ) {}
    read_buffer begin_event( sim::Result& ) { return holder->isr_allocate_receive_buffer(); }
    bool room( const read_buffer& b ) const { return b.size != 0; }
    // -> responded, transmit buffer
    bluetoe::link_layer::connection_event_events last_events() const { return bluetoe::link_layer::connection_event_events(); }
    std::pair< bool, write_buffer > reception( bool room, bool valid_crc, bool valid_mic, const read_buffer& buf, sim::Result& )
    {
        if ( !valid_crc && !valid_mic ) return { false, write_buffer{ nullptr, 0 } };
        if ( !room || !valid_crc ) return { true, holder->isr_next_transmit() };
        if ( valid_mic ) return { true, holder->isr_received( buf ) };
        return { true, holder->isr_acknowledge( buf ) };
    }
};

// ---- ... and the real front end
template < std::size_t Tx_, std::size_t Rx_, bool Enc_ >
struct nrf_port
{
    static constexpr std::size_t Tx = Tx_, Rx = Rx_;
    static constexpr bool Enc = Enc_, has_counters = Enc_, real = true;
    using radio_t = nrf_front::front< Tx, Rx, Enc >;
    struct init { init() { nrf_front::reset_hardware(); } } init_;
    nrf_front::static_like< radio_t > holder;
    unsigned channel = 0;
    radio_t& radio() { return *holder; }
    std::uint64_t rx_counter() const { return nrf_front::g_hw.rx_counter; }
    std::uint64_t tx_counter() const { return nrf_front::g_hw.tx_counter; }
    void reset_counters() { nrf_front::g_hw.rx_counter = nrf_front::g_hw.tx_counter = 0; }
    read_buffer begin_event( sim::Result& res )
    {
        nrf_front::hw_state& hw = nrf_front::g_hw;
        hw.now_us = 0; hw.rx_configured = false; hw.evt_timer = false;
        channel = ( channel + 7 ) % 37;
        holder->schedule_connection_event( channel, nrf_front::delta_time( 20000 ), nrf_front::delta_time( 20200 ), nrf_front::delta_time( 30000 ) );
        if ( !hw.evt_timer || !hw.rx_configured || hw.channel != channel || hw.rx.buffer == nullptr || hw.rx.size < 3 )
        {
            res.violate( "C15", "front-end", "front-end event-not-armed", -1, "schedule_connection_event() did not arm timer, channel and receive buffer" );
            return read_buffer{ nullptr, 0 };
        }
        return hw.rx;
    }
    // without room in the receive ring the front end listens with a 3 byte buffer (header only)
    bool room( const read_buffer& b ) const { return b.size > 3; }
    void nothing_heard( sim::Result& res )
    {
        begin_event( res );
        nrf_front::g_hw.rx_result = std::make_tuple( false, false, false );
        const unsigned before = holder->n_timeout;
        holder->fire_isr();
        holder->run();
        if ( holder->n_timeout != before + 1 ) res.violate( "C15", "front-end", "front-end timeout-not-reported", -1, "an event without reception was not reported as timeout()" );
    }
    bluetoe::link_layer::connection_event_events last_events() { return holder->last_events; }
    std::pair< bool, write_buffer > reception( bool, bool valid_crc, bool valid_mic, const read_buffer&, sim::Result& res )
    {
        nrf_front::hw_state& hw = nrf_front::g_hw;
        hw.rx_result = std::make_tuple( true, valid_mic, valid_crc );
        hw.tx_configured = false;
        const unsigned t0 = holder->n_timeout, e0 = holder->n_end_event;
        holder->fire_isr();
        if ( !hw.tx_configured )
        {
            holder->run();
            if ( holder->n_timeout != t0 + 1 ) res.violate( "C15", "front-end", "front-end timeout-not-reported", -1, "an event that ended without transmission was not reported as timeout()" );
            return { false, write_buffer{ nullptr, 0 } };
        }
        const write_buffer trans = hw.tx;
        holder->fire_isr();     // the response is out
        holder->run();
        if ( holder->n_end_event != e0 + 1 ) res.violate( "C15", "front-end", "front-end end-not-reported", -1, "a completed connection event was not reported as end_event()" );
        return { true, trans };
    }
};

enum { op_exchange, op_central_send, op_ll_send, op_ll_receive, op_set_max_rx, op_set_max_tx, op_stop, op_reset, op_count };
enum { f_none, f_c2p_lost, f_c2p_crc, f_c2p_mic, f_p2c_lost, f_p2c_crc, f_count };

struct cpdu {                       // a PDU of the central
    unsigned                    id = 0;
    std::uint8_t                llid = 1;
    std::vector< std::uint8_t > payload;
    bool                        accepted_legitimately = false;   // reached received() with room, good CRC, good MIC and a new SN
    bool                        mic_failed_as_new = false;       // was handed to acknowledge() while its SN was new
};

std::vector< std::uint8_t > make_payload( unsigned id, std::size_t len )
{
    std::vector< std::uint8_t > p( len );
    for ( std::size_t i = 0; i != len; ++i )
        p[ i ] = static_cast< std::uint8_t >( i == 0 ? id : i == 1 ? id >> 8 : id * 13 + i * 5 );
    return p;
}

template < class Port >
void run( const sim::Plan& plan, sim::Result& res )
{
    constexpr std::size_t Tx = Port::Tx, Rx = Port::Rx;
    constexpr bool Enc = Port::Enc;
    using radio_t = typename Port::radio_t;
    using layout  = typename radio_t::layout;
    Port port;
    radio_t& radio = port.radio();
    const std::string cfg = std::string( Port::real ? "nRF52 front end, " : "" ) + std::string( Enc ? "encrypted" : "default" ) + " tx " + std::to_string( Tx ) + " rx " + std::to_string( Rx );
    const std::size_t overhead = radio_t::layout_overhead;

    // ---- reference central
    std::deque< cpdu > cqueue;              // not yet transmitted
    bool        c_has_inflight = false;
    cpdu        c_inflight;                 // PDU currently owning the central's SN (may be an empty PDU)
    bool        c_sn = false, c_nesn = false;
    std::uint64_t c_tx_count = 0;           // non-empty PDUs acknowledged by the peripheral == packet counter of the in-flight PDU
    std::uint64_t c_rx_count = 0;           // non-empty PDUs accepted from the peripheral
    std::vector< cpdu > c_acked;            // non-empty, valid LLID PDUs the central considers delivered
    std::vector< std::vector< std::uint8_t > > c_received;   // header LLID + payload of accepted non-empty PDUs from the peripheral
    // ---- link layer side of the model
    std::vector< std::vector< std::uint8_t > > committed;    // LLID + payload of every committed PDU
    std::vector< cpdu > sent_valid;         // every non-empty, valid LLID PDU the central ever queued, in order
    std::size_t delivered = 0;              // how many PDUs the upper layer took out of the receive buffer
    unsigned next_id = 1;
    bool stopped = false;
    unsigned n_exchanges = 0, n_faults = 0, n_new_rx = 0, n_new_tx = 0;
    bool violated = false, counter_rule_hit = false;

    auto central_pick = [&]() {
        if ( c_has_inflight ) return;
        c_has_inflight = true;
        if ( !cqueue.empty() ) { c_inflight = cqueue.front(); cqueue.pop_front(); }
        else { c_inflight = cpdu(); c_inflight.llid = 1; }
    };

    auto reset_model = [&]() {
        cqueue.clear(); c_has_inflight = false; c_sn = c_nesn = false; c_tx_count = c_rx_count = 0;
        c_acked.clear(); c_received.clear(); committed.clear(); sent_valid.clear(); delivered = 0; stopped = false;
        port.reset_counters();
    };

    auto ll_receive = [&]( long idx ) -> bool {
        const write_buffer b = radio.next_received();
        if ( b.size == 0 )
        {
            res.note( "ll_receive -> none" );
            // receive buffer empty: everything the central considers delivered must have reached the upper layer
            if ( delivered < c_acked.size() && !violated )
            {
                violated = true;
                const cpdu& lost = c_acked[ delivered ];
                if ( lost.mic_failed_as_new && !lost.accepted_legitimately )
                    res.violate( "C17", "mic-failed-pdu-acknowledged", "mic-failed-pdu-acknowledged", idx, "%s: central PDU #%u failed its MIC check at the peripheral but was acknowledged and never delivered", cfg.c_str(), lost.id );
                res.violate( "C15", "acked-not-delivered", lost.mic_failed_as_new ? "acked-not-delivered after-mic-failure" : ( lost.accepted_legitimately ? "acked-not-delivered stored-then-lost" : "acked-not-delivered never-stored" ), idx,
                             "%s: the central considers PDU #%u delivered (acknowledged by NESN) but the receive buffer is empty after %zu deliveries", cfg.c_str(), lost.id, delivered );
            }
            return false;
        }
        const std::uint16_t header = layout::header( b );
        const std::size_t len = header >> 8;
        const std::uint8_t* body = layout::body( read_buffer{ const_cast< std::uint8_t* >( b.buffer ), b.size } ).first;
        res.note( "ll_receive -> llid %u len %zu first %02x", header & 3, len, len ? body[ 0 ] : 0 );
        if ( delivered >= sent_valid.size() )
        {
            if ( !violated ) res.violate( "C15", "phantom-delivery", "phantom-delivery", idx, "%s: upper layer received a PDU (len %zu) the central never sent", cfg.c_str(), len );
            violated = true;
        }
        else
        {
            const cpdu& e = sent_valid[ delivered ];
            const bool same = len == e.payload.size() && ( header & 3 ) == e.llid && std::equal( e.payload.begin(), e.payload.end(), body );
            if ( !same && !violated )
            {
                violated = true;
                // duplicate of an earlier one?
                bool dup = false;
                for ( std::size_t k = 0; k != delivered; ++k )
                    if ( sent_valid[ k ].payload.size() == len && std::equal( sent_valid[ k ].payload.begin(), sent_valid[ k ].payload.end(), body ) ) dup = true;
                res.violate( "C15", "delivery-order", dup ? "delivery-duplicate" : "delivery-wrong-or-reordered", idx, "%s: delivery #%zu to the upper layer is not central PDU #%u (expected len %zu llid %u, got len %zu llid %u)%s",
                             cfg.c_str(), delivered, e.id, e.payload.size(), e.llid, len, header & 3, dup ? "; it repeats an earlier PDU" : "" );
            }
            // delivered but the central neither got an acknowledge nor has it in flight
            if ( !violated && delivered >= c_acked.size() && !( c_has_inflight && c_inflight.id == e.id ) )
            {
                violated = true;
                res.violate( "C15", "delivered-not-sent", "delivered-not-sent", idx, "%s: PDU #%u reached the upper layer before the central transmitted it", cfg.c_str(), e.id );
            }
        }
        ++delivered;
        radio.free_received();
        return true;
    };

    auto exchange = [&]( int fault, long idx ) {
        ++n_exchanges;
        central_pick();
        const bool c_nonempty = !c_inflight.payload.empty();
        // --- central -> peripheral
        if ( fault == f_c2p_lost )
        {
            res.fault( "c2p_lost" ); ++n_faults;
            res.note( "exchange: c2p lost" );
            port.nothing_heard( res );
            return;     // the peripheral hears nothing, the event times out, the central gets no response
        }
        read_buffer buf = port.begin_event( res );
        if ( buf.buffer == nullptr && Port::real ) { violated = true; return; }
        const bool room = port.room( buf );
        std::uint8_t small[ 3 + 1 ] = { 0 };
        if ( room && buf.size < layout::data_channel_pdu_memory_size( c_inflight.payload.size() ) )
        {
            // cannot happen with a central that honours max_rx_size; treated as harness error, not as violation
            res.note( "exchange: PDU larger than allocated buffer, skipped" );
            if ( Port::real ) port.reception( room, false, false, buf, res );
            return;
        }
        std::uint16_t header = static_cast< std::uint16_t >( c_inflight.llid | ( c_nesn ? 4 : 0 ) | ( c_sn ? 8 : 0 ) | ( !cqueue.empty() ? 0x10 : 0 ) | ( c_inflight.payload.size() << 8 ) );
        if ( room )
        {
            layout::header( buf, header );
            std::copy( c_inflight.payload.begin(), c_inflight.payload.end(), layout::body( buf ).first );
        }
        else
        {
            res.probe( "receive_buffer_full_at_reception" );
            if ( Port::real ) layout::header( buf, header ); else layout::header( small, header );
        }
        const bool valid_crc = fault != f_c2p_crc;
        // MIC as the CCM hardware computes it: nonce from the packet counters of both sides; empty PDUs carry no MIC
        bool valid_mic = true;
        if ( Enc && c_nonempty )
            valid_mic = fault != f_c2p_mic && c_tx_count == port.rx_counter();
        if ( fault == f_c2p_crc ) { res.fault( "c2p_crc" ); ++n_faults; }
        if ( Enc && c_nonempty && fault == f_c2p_mic ) { res.fault( "c2p_mic" ); ++n_faults; }
        // what fails its MIC is not what the central sent
        if ( !valid_mic && room )
            for ( std::size_t i = 0; i != c_inflight.payload.size(); ++i ) layout::body( buf ).first[ i ] ^= 0xa5;

        const std::uint64_t rx_before = port.rx_counter(), tx_before = port.tx_counter();
        // what the reception amounts to: 0 nothing usable (no room or CRC error), 1 a PDU to take, 2 a PDU that failed its MIC
        const int path = ( !room || !valid_crc ) ? 0 : valid_mic ? 1 : 2;
        const auto outcome = port.reception( room, valid_crc, valid_mic, buf, res );
        if ( !outcome.first )
        {
            if ( !valid_crc && !valid_mic ) { res.note( "exchange: bad crc and bad mic, no response" ); return; }
            if ( !violated ) res.violate( "C15", "no-response", "no-response event-given-up", idx, "%s: the radio ended the event without a response (room %d, crc %d, mic %d)", cfg.c_str(), room, valid_crc, valid_mic );
            violated = true;
            return;
        }
        write_buffer trans = outcome.second;
        // C23: what the front end reports about the event are the listen conditions of the peripheral latency configuration
        // (this radio exchanges one pair of PDUs per event: a non-empty PDU it sent cannot have been acknowledged within the event)
        if ( Port::real && valid_crc && !violated && trans.size != 0 && trans.buffer != nullptr )
        {
            const auto ev = port.last_events();
            const bool sent_nonempty = ( layout::header( trans ) >> 8 ) != 0;
            const bool md = !cqueue.empty();
            if ( ev.last_received_not_empty != c_nonempty )
                res.violate( "C23", "event-report", "event-report last_received_not_empty", idx, "%s: last_received_not_empty reported %d after a %s PDU from the central", cfg.c_str(), ev.last_received_not_empty, c_nonempty ? "non-empty" : "empty" );
            if ( ev.last_received_had_more_data != md )
                res.violate( "C23", "event-report", "event-report last_received_had_more_data", idx, "%s: last_received_had_more_data reported %d, the central's MD flag was %d", cfg.c_str(), ev.last_received_had_more_data, md );
            if ( ev.last_transmitted_not_empty != sent_nonempty )
                res.violate( "C23", "event-report", "event-report last_transmitted_not_empty", idx, "%s: last_transmitted_not_empty reported %d after a %s PDU was sent", cfg.c_str(), ev.last_transmitted_not_empty, sent_nonempty ? "non-empty" : "empty" );
            if ( ev.unacknowledged_data != sent_nonempty )
                res.violate( "C23", "event-report", "event-report unacknowledged_data", idx, "%s: unacknowledged_data reported %d at the end of an event in which the peripheral sent %s PDU", cfg.c_str(), ev.unacknowledged_data, sent_nonempty ? "a non-empty (not yet acknowledged)" : "only an empty" );
        }
        // from the central's point of view the PDU is new to the peripheral iff it was not legitimately accepted before
        // (the central keeps its SN until it sees the acknowledge)
        if ( path == 1 && !c_inflight.accepted_legitimately )
        {
            c_inflight.accepted_legitimately = true;
            ++n_new_rx;
            // C16: exactly one increment for a new non-empty PDU, none for an empty one
            const std::uint64_t expect = rx_before + ( c_nonempty ? 1 : 0 );
            if ( Port::has_counters && port.rx_counter() != expect && !violated && !counter_rule_hit )
            {
                counter_rule_hit = true;     // the run ends after this exchange: what the wrong counter leads to (C15, C17) is still judged
                res.violate( "C16", "rx-counter", c_nonempty ? "rx-counter new-nonempty" : "rx-counter empty", idx, "%s: receive packet counter went %llu -> %llu for a new %s PDU", cfg.c_str(),
                             (unsigned long long)rx_before, (unsigned long long)port.rx_counter(), c_nonempty ? "non-empty" : "empty" );
            }
        }
        else if ( port.rx_counter() != rx_before && !violated && !counter_rule_hit )
        {
            counter_rule_hit = true;     // the run ends after this exchange: what the wrong counter leads to (C15, C17) is still judged
            res.violate( "C16", "rx-counter", path == 1 ? "rx-counter retransmission" : ( path == 2 ? "rx-counter mic-failure" : "rx-counter not-received" ), idx,
                         "%s: receive packet counter went %llu -> %llu although no new PDU was accepted (path %d)", cfg.c_str(), (unsigned long long)rx_before, (unsigned long long)port.rx_counter(), path );
        }
        if ( path == 2 && !c_inflight.accepted_legitimately ) c_inflight.mic_failed_as_new = true;
        if ( trans.size == 0 || trans.buffer == nullptr )
        {
            if ( !violated ) res.violate( "C15", "no-response", "no-response", idx, "%s: radio got an empty transmit buffer", cfg.c_str() );
            violated = true;
            return;
        }
        const std::uint16_t rh = layout::header( trans );
        const std::size_t rlen = rh >> 8;
        const std::uint8_t* rbody = layout::body( read_buffer{ const_cast< std::uint8_t* >( trans.buffer ), trans.size } ).first;
        if ( layout::data_channel_pdu_memory_size( rlen ) > trans.size && !violated )
        {
            violated = true;
            res.violate( "C15", "transmit-size", "transmit-size", idx, "%s: transmit buffer of %zu bytes announces %zu payload bytes", cfg.c_str(), trans.size, rlen );
            return;
        }
        const std::uint64_t p_tx_counter_used = port.tx_counter();     // the CCM encrypts with the counter as it is when the PDU goes out
        res.note( "exchange: path %d resp llid %u sn %d nesn %d len %zu", path, rh & 3, ( rh >> 3 ) & 1, ( rh >> 2 ) & 1, rlen );
        (void)tx_before;

        // --- peripheral -> central
        if ( fault == f_p2c_lost ) { res.fault( "p2c_lost" ); ++n_faults; return; }
        if ( fault == f_p2c_crc )  { res.fault( "p2c_crc" ); ++n_faults; return; }
        const bool r_nesn = ( rh & 4 ) != 0, r_sn = ( rh & 8 ) != 0;
        if ( r_nesn != c_sn )
        {
            // acknowledged
            if ( !c_inflight.accepted_legitimately && !violated )
            {
                violated = true;
                if ( c_inflight.mic_failed_as_new )
                    res.violate( "C17", "mic-failed-pdu-acknowledged", "mic-failed-pdu-acknowledged", idx, "%s: central PDU #%u (len %zu) failed its MIC check while its SN was new, and the peripheral acknowledged it (NESN advanced) without delivering it",
                                 cfg.c_str(), c_inflight.id, c_inflight.payload.size() );
                else
                    res.violate( "C15", "acked-not-stored", room ? ( valid_crc ? "acked-not-stored" : "acked-not-stored crc-error" ) : "acked-not-stored buffer-full", idx,
                                 "%s: the peripheral acknowledged central PDU #%u (len %zu) although it never accepted it (room %d, crc %d, mic %d)", cfg.c_str(), c_inflight.id, c_inflight.payload.size(), room, valid_crc, valid_mic );
            }
            if ( c_nonempty )
            {
                ++c_tx_count;
                if ( c_inflight.llid != 0 ) c_acked.push_back( c_inflight );
            }
            c_sn = !c_sn;
            c_has_inflight = false;
        }
        if ( r_sn == c_nesn )
        {
            // new data from the peripheral
            c_nesn = !c_nesn;
            if ( rlen != 0 )
            {
                ++n_new_tx;
                if ( Enc && p_tx_counter_used != c_rx_count && !violated && !counter_rule_hit )
                {
                    counter_rule_hit = true;     // the run ends after this exchange: what the wrong counter leads to (C15, C17) is still judged
                    res.violate( "C16", "tx-counter", p_tx_counter_used > c_rx_count ? "tx-counter ahead" : "tx-counter behind", idx, "%s: peripheral PDU encrypted with transmit packet counter %llu, the central expects %llu (nonce reused or skipped)",
                                 cfg.c_str(), (unsigned long long)p_tx_counter_used, (unsigned long long)c_rx_count );
                }
                ++c_rx_count;
                std::vector< std::uint8_t > got;
                got.push_back( static_cast< std::uint8_t >( rh & 3 ) );
                got.insert( got.end(), rbody, rbody + rlen );
                const std::size_t k = c_received.size();
                if ( ( k >= committed.size() || committed[ k ] != got ) && !violated )
                {
                    violated = true;
                    bool dup = false;
                    for ( const auto& e : c_received ) if ( e == got ) dup = true;
                    res.violate( "C15", "central-receives", dup ? "central-receives duplicate" : "central-receives wrong-or-reordered", idx, "%s: new PDU #%zu at the central (len %zu) is not the %zu. committed PDU%s", cfg.c_str(), k, rlen, k + 1,
                                 dup ? "; it repeats an earlier one" : "" );
                }
                c_received.push_back( got );
            }
        }
        // the peripheral treats a PDU as delivered (frees it, advances the counter) only after the central has it
        if ( Port::has_counters && port.tx_counter() > c_received.size() && !violated )
        {
            violated = true;
            res.violate( "C15", "freed-before-delivered", "freed-before-delivered", idx, "%s: %llu transmit PDUs were released as acknowledged but the central received only %zu", cfg.c_str(), (unsigned long long)port.tx_counter(), c_received.size() );
        }
    };

    long idx = -1;
    for ( const auto& op : plan.ops )
    {
        ++idx;
        if ( violated ) break;
        switch ( ( ( op.kind % op_count ) + op_count ) % op_count )
        {
        case op_exchange:
            exchange( static_cast< int >( ( ( op.arg( 0 ) % f_count ) + f_count ) % f_count ), idx );
            if ( counter_rule_hit ) violated = true;
            break;
        case op_central_send: {
            const std::size_t max_payload = radio.max_rx_size() - 2;
            const std::size_t len = 1 + static_cast< std::size_t >( ( ( op.arg( 0 ) % static_cast< std::int64_t >( max_payload ) ) + static_cast< std::int64_t >( max_payload ) ) % static_cast< std::int64_t >( max_payload ) );
            cpdu p;
            p.id = next_id++;
            p.llid = static_cast< std::uint8_t >( ( ( op.arg( 1 ) % 4 ) + 4 ) % 4 );     // 0 = reserved LLID: acknowledged but not delivered
            p.payload = make_payload( p.id, len );
            cqueue.push_back( p );
            if ( p.llid != 0 ) sent_valid.push_back( p );
            res.note( "central queues #%u llid %u len %zu", p.id, p.llid, len );
            break; }
        case op_ll_send: {
            const std::size_t max_payload = radio.max_tx_size() - 2;
            const std::size_t len = 1 + static_cast< std::size_t >( ( ( op.arg( 0 ) % static_cast< std::int64_t >( max_payload ) ) + static_cast< std::int64_t >( max_payload ) ) % static_cast< std::int64_t >( max_payload ) );
            const bool whole = ( op.arg( 1 ) & 1 ) != 0;
            read_buffer b = whole ? radio.allocate_transmit_buffer() : radio.allocate_transmit_buffer( layout::data_channel_pdu_memory_size( len ) );
            if ( b.size == 0 ) { res.note( "ll_send: no buffer" ); res.probe( "transmit_buffer_full" ); break; }
            const unsigned id = next_id++;
            const std::uint8_t llid = static_cast< std::uint8_t >( 1 + id % 3 );
            const auto payload = make_payload( id, len );
            layout::header( b, static_cast< std::uint16_t >( llid | ( len << 8 ) ) );
            std::copy( payload.begin(), payload.end(), layout::body( b ).first );
            radio.commit_transmit_buffer( b );
            if ( !stopped )
            {
                std::vector< std::uint8_t > rec;
                rec.push_back( llid );
                rec.insert( rec.end(), payload.begin(), payload.end() );
                committed.push_back( rec );
            }
            res.note( "ll commits #%u len %zu%s", id, len, stopped ? " (stopped)" : "" );
            break; }
        case op_ll_receive:
            ll_receive( idx );
            break;
        case op_set_max_rx: {
            // only while nothing larger than the new size is queued at the central (a real central learns the size through LL_LENGTH_*)
            const std::size_t lo = 29, hi = std::min< std::size_t >( 251, Rx - overhead );
            const std::size_t v = lo + static_cast< std::size_t >( ( ( op.arg( 0 ) % static_cast< std::int64_t >( hi - lo + 1 ) ) + static_cast< std::int64_t >( hi - lo + 1 ) ) % static_cast< std::int64_t >( hi - lo + 1 ) );
            bool fits = !( c_has_inflight && c_inflight.payload.size() + 2 > v );
            for ( const auto& p : cqueue ) if ( p.payload.size() + 2 > v ) fits = false;
            if ( fits ) { radio.max_rx_size( v ); res.note( "max_rx_size %zu", v ); }
            break; }
        case op_set_max_tx: {
            const std::size_t lo = 29, hi = std::min< std::size_t >( 251, Tx - overhead );
            const std::size_t v = lo + static_cast< std::size_t >( ( ( op.arg( 0 ) % static_cast< std::int64_t >( hi - lo + 1 ) ) + static_cast< std::int64_t >( hi - lo + 1 ) ) % static_cast< std::int64_t >( hi - lo + 1 ) );
            radio.max_tx_size( v );
            res.note( "max_tx_size %zu", v );
            break; }
        case op_stop:
            radio.stop_ll_pdu_buffer();
            stopped = true;
            res.note( "stop" );
            break;
        case op_reset:
            radio.reset_pdu_buffer();
            reset_model();
            res.note( "reset" );
            break;
        }
    }
    // faults have stopped: bounded progress and final accounting
    if ( !violated )
    {
        const std::size_t todo = cqueue.size() + ( c_has_inflight ? 1 : 0 ) + ( committed.size() - std::min( committed.size(), c_received.size() ) );
        const std::size_t bound = 3 * todo + 6;
        std::size_t steps = 0;
        const long end_idx = static_cast< long >( plan.ops.size() );
        auto unfinished = [&]() {
            return !cqueue.empty() || ( c_has_inflight && !c_inflight.payload.empty() ) || c_received.size() < committed.size() || delivered < c_acked.size();
        };
        while ( unfinished() && steps < bound && !violated )
        {
            ++steps;
            exchange( f_none, end_idx );
            if ( counter_rule_hit ) violated = true;
            while ( !violated && ll_receive( end_idx ) ) {}
        }
        while ( !violated && ll_receive( end_idx ) ) {}
        if ( !violated && unfinished() )
        {
            // is the stall explained by a ring that is empty and yet refuses the allocation? (pointers of an empty ring stay in place)
            const bool rx_empty_unallocatable = radio.next_received().size == 0 && radio.isr_allocate_receive_buffer().size == 0;
            const bool tx_empty_unallocatable = !radio.pending_outgoing_data_available() && radio.allocate_transmit_buffer().size == 0;
            const std::string key = rx_empty_unallocatable ? "progress empty-ring-unallocatable rx" : tx_empty_unallocatable ? "progress empty-ring-unallocatable tx" : "progress stalled";
            violated = true;
            res.violate( "C15", "progress", key, end_idx,
                         "%s: after %zu fault-free exchanges with the upper layer consuming everything, %zu central PDUs are undelivered and %zu committed PDUs did not reach the central (max_rx_size %zu, max_tx_size %zu)%s",
                         cfg.c_str(), steps, cqueue.size() + ( c_has_inflight && !c_inflight.payload.empty() ? 1 : 0 ), committed.size() - c_received.size(), radio.max_rx_size(), radio.max_tx_size(),
                         rx_empty_unallocatable ? "; the receive ring is EMPTY and still cannot allocate max_rx_size: nothing is received or acknowledged any more" :
                         tx_empty_unallocatable ? "; the transmit ring is EMPTY and still cannot allocate max_tx_size" : "" );
        }
        if ( !violated && !stopped && !radio.pending_outgoing_data_available() && radio.allocate_transmit_buffer().size == 0 )
        {
            violated = true;
            res.violate( "C15", "progress", "progress empty-ring-unallocatable tx", end_idx, "%s: the transmit ring is EMPTY and cannot allocate max_tx_size %zu: the link layer can never send again", cfg.c_str(), radio.max_tx_size() );
        }
        if ( !violated && !unfinished() )
        {
            if ( delivered != sent_valid.size() )
                res.violate( "C15", "final-accounting", "final-accounting rx", end_idx, "%s: %zu PDUs sent by the central, %zu delivered", cfg.c_str(), sent_valid.size(), delivered );
            if ( Enc && port.rx_counter() != c_tx_count )
                res.violate( "C16", "rx-counter", "rx-counter final", end_idx, "%s: receive packet counter %llu, central transmitted %llu non-empty PDUs", cfg.c_str(), (unsigned long long)port.rx_counter(), (unsigned long long)c_tx_count );
        }
    }
    res.probe( "exchanges", n_exchanges );
    res.nontrivial = n_faults >= 1 && n_new_rx >= 1 && n_new_tx >= 1;
    res.sim_time_us = static_cast< std::uint64_t >( n_exchanges ) * 7500;
}

struct pdu_harness : sim::Harness
{
    const char* name() const override { return "pdu_sim"; }
    std::vector< std::string > properties() const override { return { "C15", "C16", "C17", "C23" }; }
    std::string nontrivial_rule( const std::string& ) const override
    {
        return "seeded op sequences: packet exchanges (each with an attached air fault: none / central->peripheral lost, CRC error, MIC error / peripheral->central lost, CRC error), "
               "central queues PDUs (all LLIDs incl. reserved), link layer commits PDUs, upper layer consumes, max_rx/max_tx changes, stop, reset; 10 (tx, rx, layout) configurations, each behind the re-stated decision table and behind the real nRF52 front end; "
               "a fault-free drain phase follows; non-trivial = at least one fault fired and at least one new non-empty PDU moved in each direction; distinct = distinct trace hashes";
    }
    std::vector< std::string > real_components() const override { return { "bluetoe/link_layer/ll_data_pdu_buffer.hpp", "bluetoe/link_layer/ring_buffer.hpp", "bluetoe/link_layer/default_pdu_layout.hpp", "bluetoe/bindings/nordic/nrf.hpp (encrypted_pdu_layout)", "configurations 10..19: bluetoe/bindings/nordic/nrf52/include/bluetoe/nrf52.hpp (schedule_connection_event, radio_interrupt_handler in the connection event states, run, packet counter forwarding)" }; }
    std::vector< std::string > stub_components() const override { return { "configurations 0..9: radio (nRF52 receive decision table re-stated in the harness; packet counters)", "configurations 10..19: the Hardware abstraction below nrf52.hpp (harness/nrf_front.hpp: timers, buffers, counters recorded; nrf52.cpp is not compiled)", "MIC verdict derived from both sides' counters", "central (reference ARQ)", "air" }; }
    std::uint64_t default_runs( const std::string&, bool thorough ) const override { return thorough ? 2000000 : 60000; }
    std::vector< std::string > op_names() const override { return { "exchange", "central_send", "ll_send", "ll_receive", "set_max_rx", "set_max_tx", "stop", "reset" }; }

    sim::Plan generate( std::uint64_t seed, const std::string& property, bool thorough ) const override
    {
        sim::Rng rng( seed );
        sim::Plan p;
        p.harness = name(); p.property = property; p.seed = seed;
        p.config = static_cast< int >( rng.below( 20 ) );
        const unsigned n_ops = static_cast< unsigned >( rng.range( 4, thorough ? 160 : 70 ) );
        unsigned w[ op_count ];
        w[ op_exchange ] = static_cast< unsigned >( rng.range( 4, 12 ) );
        w[ op_central_send ] = static_cast< unsigned >( rng.range( 0, 6 ) );
        w[ op_ll_send ] = static_cast< unsigned >( rng.range( 0, 6 ) );
        w[ op_ll_receive ] = static_cast< unsigned >( rng.range( 0, 6 ) );     // 0: the upper layer lags -> receive buffer fills up
        w[ op_set_max_rx ] = rng.chance( 30 ) ? 1 : 0;
        w[ op_set_max_tx ] = rng.chance( 30 ) ? 1 : 0;
        w[ op_stop ] = rng.chance( 5 ) ? 1 : 0;
        w[ op_reset ] = rng.chance( 8 ) ? 1 : 0;
        unsigned total = 0;
        for ( auto x : w ) total += x;
        // fault mix for this run
        unsigned fw[ f_count ];
        fw[ f_none ] = static_cast< unsigned >( rng.range( 5, 20 ) );
        for ( int f = 1; f != f_count; ++f ) fw[ f ] = rng.chance( 60 ) ? static_cast< unsigned >( rng.range( 1, 4 ) ) : 0;
        if ( property == "C17" ) fw[ f_c2p_mic ] += 3;
        unsigned ftotal = 0;
        for ( auto x : fw ) ftotal += x;
        const int size_mode = static_cast< int >( rng.below( 3 ) );
        for ( unsigned i = 0; i != n_ops; ++i )
        {
            unsigned r = static_cast< unsigned >( rng.below( total ) ), k = 0;
            while ( r >= w[ k ] ) { r -= w[ k ]; ++k; }
            std::int64_t a0 = 0, a1 = 0;
            if ( k == op_exchange )
            {
                unsigned fr = static_cast< unsigned >( rng.below( ftotal ) ), f = 0;
                while ( fr >= fw[ f ] ) { fr -= fw[ f ]; ++f; }
                a0 = f;
            }
            else if ( k == op_central_send || k == op_ll_send )
            {
                a0 = size_mode == 0 ? rng.range( 0, 250 ) : size_mode == 1 ? rng.range( 0, 8 ) : ( rng.chance( 50 ) ? 26 : rng.range( 20, 30 ) );
                a1 = k == op_central_send ? ( rng.chance( 4 ) ? 0 : rng.range( 1, 3 ) ) : rng.range( 0, 1 );
            }
            else a0 = rng.range( 0, 250 );
            p.ops.push_back( sim::Op( static_cast< int >( k ), { a0, a1 } ) );
        }
        return p;
    }

    void execute( const sim::Plan& plan, sim::Result& res ) const override
    {
        const int c = ( ( plan.config % 20 ) + 20 ) % 20;
        res.note( "config %d", c );
        switch ( c )
        {
        case 0: run< stub_port< 29, 29, false > >( plan, res ); break;
        case 1: run< stub_port< 30, 30, true > >( plan, res ); break;
        case 2: run< stub_port< 61, 61, false > >( plan, res ); break;
        case 3: run< stub_port< 62, 62, true > >( plan, res ); break;
        case 4: run< stub_port< 100, 100, false > >( plan, res ); break;
        case 5: run< stub_port< 87, 100, true > >( plan, res ); break;
        case 6: run< stub_port< 29, 120, false > >( plan, res ); break;
        case 7: run< stub_port< 200, 58, true > >( plan, res ); break;
        case 8: run< stub_port< 520, 520, false > >( plan, res ); break;
        case 9: run< stub_port< 600, 300, true > >( plan, res ); break;
        // the same buffers behind the real nRF52 front end
        case 10: run< nrf_port< 29, 29, false > >( plan, res ); break;
        case 11: run< nrf_port< 30, 30, true > >( plan, res ); break;
        case 12: run< nrf_port< 61, 61, false > >( plan, res ); break;
        case 13: run< nrf_port< 62, 62, true > >( plan, res ); break;
        case 14: run< nrf_port< 100, 100, false > >( plan, res ); break;
        case 15: run< nrf_port< 87, 100, true > >( plan, res ); break;
        case 16: run< nrf_port< 29, 120, false > >( plan, res ); break;
        case 17: run< nrf_port< 200, 58, true > >( plan, res ); break;
        case 18: run< nrf_port< 520, 520, false > >( plan, res ); break;
        case 19: run< nrf_port< 600, 300, true > >( plan, res ); break;
        }
    }

    std::vector< sim::Op > simplify( const sim::Plan& plan, std::size_t i ) const override
    {
        std::vector< sim::Op > r;
        const sim::Op& op = plan.ops[ i ];
        if ( op.kind == op_exchange && op.arg( 0 ) != 0 ) { sim::Op c = op; c.a[ 0 ] = 0; r.push_back( c ); }
        else if ( op.kind != op_exchange && op.arg( 0 ) > 0 ) { sim::Op c = op; c.a[ 0 ] = 0; r.push_back( c ); c.a[ 0 ] = op.arg( 0 ) / 2; r.push_back( c ); }
        return r;
    }
};

}

int main( int argc, char** argv )
{
    pdu_harness h;
    return sim::sim_main( argc, argv, h );
}
