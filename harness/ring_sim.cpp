// ring_sim - PDU ring buffers keep PDUs intact and in FIFO order (C18)
//
// Parties: producer (alloc_front / fill / push_front) and consumer (next_end /
// pop_end / more_than_one); each op is atomic, which is what Radio::lock_guard
// provides in production.  Real code: pdu_ring_buffer with default_pdu_layout
// and nrf_details::encrypted_pdu_layout.  Nothing is stubbed; storage is an
// exactly sized heap block so that ASan sees every access outside the ring.
#include <iterator>
#include <array>
#include <algorithm>
#include <cstring>
#include <deque>
#include <memory>

#include <bluetoe/ring_buffer.hpp>
#include <bluetoe/nrf.hpp>

#include "../sim/sim.hpp"

namespace {

using bluetoe::link_layer::read_buffer;

enum { op_push, op_alloc_only, op_peek, op_pop, op_more, op_reset, op_count };

struct live_pdu {
    std::size_t                 offset;
    std::vector< std::uint8_t > bytes;   // complete in-memory image
};

template < std::size_t Size, class Layout >
void run( const sim::Plan& plan, sim::Result& res, const char* layout_name )
{
    using ring_t = bluetoe::link_layer::pdu_ring_buffer< Size, read_buffer, Layout >;
    std::unique_ptr< std::uint8_t[] > storage( new std::uint8_t[ Size ] );
    std::uint8_t* const buffer = storage.get();
    std::memset( buffer, 0xee, Size );
    ring_t ring( buffer );

    std::deque< live_pdu > live;
    std::size_t front = 0;          // model: offset behind the newest pushed PDU
    unsigned serial = 0;
    bool wrapped = false, failed_alloc = false, refill_after_empty = false;
    unsigned pushes = 0;
    const std::string cfg = std::string( layout_name ) + "/" + std::to_string( Size );
    const std::size_t overhead = Layout::data_channel_pdu_memory_size( 0 );

    auto end_off = [&]() { return live.empty() ? front : live.front().offset; };

    // largest allocation the ring's rules allow right now: contiguous, one spare byte before the oldest PDU, wrap only to the
    // start, and the pointers of an empty ring stay where they are (tests/link_layer/ring_buffer_tests.cpp:
    // when_splitted_full_allocation_not_possible documents that an empty ring split at k offers max( Size - k, k - 1 ) only)
    auto capacity_in_place = [&]() -> std::size_t {
        const std::size_t end = end_off();
        if ( !live.empty() && end > front )
            return end - front - 1;
        const std::size_t at_end   = Size - front;
        const std::size_t at_start = end == 0 ? 0 : end - 1;
        return std::max( at_end, at_start );
    };

    auto check_live_intact = [&]( long idx, const char* after ) {
        for ( const auto& p : live )
            if ( std::memcmp( buffer + p.offset, p.bytes.data(), p.bytes.size() ) != 0 )
            {
                res.violate( "C18", "bytes-changed", std::string( "bytes-changed after " ) + after, idx, "stored PDU at offset %zu (%zu bytes) was modified after %s (%s)",
                             p.offset, p.bytes.size(), after, cfg.c_str() );
                return;
            }
    };

    auto check_alloc = [&]( const read_buffer& b, std::size_t size, long idx ) -> bool {
        if ( b.size == 0 )
        {
            failed_alloc = true;
            if ( size <= capacity_in_place() )
                res.violate( "C18", "alloc-fails-with-room", "alloc-fails-with-room " + std::string( live.empty() ? "empty" : "nonempty" ), idx,
                             "alloc_front(%zu) failed, but %zu contiguous bytes are free under the ring's rules (front %zu, end %zu, %zu live; %s)", size, capacity_in_place(), front, end_off(), live.size(), cfg.c_str() );
            return false;
        }
        if ( b.size != size )
            res.violate( "C18", "alloc-size", "alloc-size", idx, "alloc_front(%zu) returned a buffer of %zu bytes", size, b.size );
        if ( b.buffer < buffer || b.buffer + b.size > buffer + Size )
        {
            res.violate( "C18", "bounds", "bounds", idx, "alloc_front(%zu) returned [%td, %td) outside the ring's storage of %zu bytes (%s)", size, b.buffer - buffer, b.buffer - buffer + (std::ptrdiff_t)b.size, Size, cfg.c_str() );
            return false;
        }
        const std::size_t off = static_cast< std::size_t >( b.buffer - buffer );
        for ( const auto& p : live )
            if ( off < p.offset + p.bytes.size() && p.offset < off + size )
            {
                res.violate( "C18", "overlap", "overlap", idx, "alloc_front(%zu) returned [%zu, %zu) overlapping the live PDU at [%zu, %zu) (%s)", size, off, off + size, p.offset, p.offset + p.bytes.size(), cfg.c_str() );
                return false;
            }
        return true;
    };

    long idx = -1;
    for ( const auto& op : plan.ops )
    {
        ++idx;
        switch ( ( ( op.kind % op_count ) + op_count ) % op_count )
        {
        case op_push:
        case op_alloc_only: {
            // arg0: payload length 1..251 (clipped to what can exist in this ring), arg1: extra bytes allocated beyond the PDU
            const std::size_t max_payload = std::min< std::size_t >( 251, Size - 1 - overhead );   // 251 = largest LL data channel payload
            const std::size_t payload = 1 + static_cast< std::size_t >( ( ( op.arg( 0 ) % static_cast< std::int64_t >( max_payload ) ) + static_cast< std::int64_t >( max_payload ) ) % static_cast< std::int64_t >( max_payload ) );
            const std::size_t mem = Layout::data_channel_pdu_memory_size( payload );
            std::size_t size = mem + static_cast< std::size_t >( std::max< std::int64_t >( 0, op.arg( 1 ) ) );
            if ( size > Size ) size = Size;
            const read_buffer b  = ring.alloc_front( buffer, size );
            const read_buffer b2 = ring.alloc_front( buffer, size );
            res.note( "alloc %zu -> %td/%zu", size, b.size ? b.buffer - buffer : -1, b.size );
            if ( b.buffer != b2.buffer || b.size != b2.size )
                res.violate( "C18", "alloc-idempotent", "alloc-idempotent", idx, "two identical alloc_front(%zu) calls returned different buffers", size );
            if ( !check_alloc( b, size, idx ) ) break;
            if ( ( op.kind % op_count + op_count ) % op_count == op_alloc_only ) break;
            const std::size_t off = static_cast< std::size_t >( b.buffer - buffer );
            if ( live.empty() && off != front ) refill_after_empty = true;
            if ( off == 0 && front != 0 && !live.empty() ) wrapped = true;
            // fill: header (LLID 1..3, random flag bits; length) and a body that is unique per PDU
            ++serial;
            std::memset( b.buffer, 0xa5, b.size );
            const std::uint16_t header = static_cast< std::uint16_t >( ( payload << 8 ) | ( 1 + serial % 3 ) | ( ( serial * 4 ) & 0x1c ) );
            Layout::header( b, header );
            auto body = Layout::body( b );
            for ( std::size_t i = 0; i != payload; ++i )
                body.first[ i ] = static_cast< std::uint8_t >( serial * 31 + i * 7 + ( i >> 8 ) );
            live_pdu p;
            p.offset = off;
            p.bytes.assign( b.buffer, b.buffer + mem );
            ring.push_front( buffer, b );
            live.push_back( p );
            front = off + mem;
            ++pushes;
            res.note( "push #%u payload %zu at %zu", serial, payload, off );
            check_live_intact( idx, "push" );
            break; }
        case op_peek: {
            const read_buffer b = ring.next_end();
            res.note( "peek -> %td/%zu", b.size ? b.buffer - buffer : -1, b.size );
            if ( live.empty() )
            {
                if ( b.size != 0 )
                    res.violate( "C18", "phantom", "phantom", idx, "next_end() returned a PDU of %zu bytes from an empty ring (%s)", b.size, cfg.c_str() );
                break;
            }
            const live_pdu& o = live.front();
            if ( b.size == 0 )
                res.violate( "C18", "lost", "lost", idx, "next_end() returned nothing although %zu PDUs are stored (%s)", live.size(), cfg.c_str() );
            else if ( b.buffer != buffer + o.offset || b.size != o.bytes.size() )
                res.violate( "C18", "fifo-order", "fifo-order", idx, "next_end() returned [%td, +%zu), expected the oldest PDU at [%zu, +%zu) (%s)", b.buffer - buffer, b.size, o.offset, o.bytes.size(), cfg.c_str() );
            else if ( std::memcmp( b.buffer, o.bytes.data(), o.bytes.size() ) != 0 )
                res.violate( "C18", "bytes-changed", "bytes-changed at peek", idx, "oldest PDU at %zu differs from what was committed (%s)", o.offset, cfg.c_str() );
            break; }
        case op_pop: {
            if ( live.empty() ) { res.note( "pop skipped" ); break; }     // precondition of pop_end
            // peek first: the link layer always does
            const read_buffer b = ring.next_end();
            const live_pdu& o = live.front();
            if ( b.size == 0 || b.buffer != buffer + o.offset || b.size != o.bytes.size() || std::memcmp( b.buffer, o.bytes.data(), o.bytes.size() ) != 0 )
            {
                res.violate( "C18", "fifo-order", "fifo-order at pop", idx, "next_end() returned [%td, +%zu), expected the oldest PDU at [%zu, +%zu) unchanged (%s)", b.size ? b.buffer - buffer : -1, b.size, o.offset, o.bytes.size(), cfg.c_str() );
                return;   // the model cannot follow any further
            }
            ring.pop_end( buffer );
            live.pop_front();
            res.note( "pop" );
            check_live_intact( idx, "pop" );
            break; }
        case op_more: {
            const bool got = ring.more_than_one();
            res.note( "more -> %d", got );
            if ( got != ( live.size() >= 2 ) )
                res.violate( "C18", "more-than-one", "more-than-one", idx, "more_than_one() returned %d with %zu PDUs stored (%s)", got, live.size(), cfg.c_str() );
            break; }
        case op_reset:
            ring.reset( buffer );
            live.clear();
            front = 0;
            res.note( "reset" );
            break;
        }
    }
    // drain: everything that was committed comes out in order and unchanged
    while ( !live.empty() )
    {
        const read_buffer b = ring.next_end();
        const live_pdu& o = live.front();
        if ( b.size == 0 || b.buffer != buffer + o.offset || b.size != o.bytes.size() || std::memcmp( b.buffer, o.bytes.data(), o.bytes.size() ) != 0 )
        {
            res.violate( "C18", "fifo-order", "fifo-order at drain", static_cast< long >( plan.ops.size() ), "drain: next_end() returned [%td, +%zu), expected [%zu, +%zu) unchanged (%s)", b.size ? b.buffer - buffer : -1, b.size, o.offset, o.bytes.size(), cfg.c_str() );
            break;
        }
        ring.pop_end( buffer );
        live.pop_front();
    }
    if ( ring.next_end().size != 0 )
        res.violate( "C18", "phantom", "phantom after drain", static_cast< long >( plan.ops.size() ), "ring not empty after all committed PDUs were popped (%s)", cfg.c_str() );

    if ( wrapped ) res.probe( "allocation_wrapped_to_start_with_live_pdus" );
    if ( failed_alloc ) res.probe( "allocation_failed" );
    if ( refill_after_empty ) res.probe( "empty_ring_refilled_at_other_offset" );
    res.nontrivial = wrapped && pushes >= 3;
}

struct config { std::size_t size; bool encrypted; };
const config configs[] = {
    { 31, false }, { 32, true }, { 40, false }, { 58, false }, { 61, true }, { 64, false }, { 100, false }, { 100, true },
    { 128, true }, { 255, false }, { 258, true }, { 300, false }, { 512, false }, { 1024, true } };
constexpr int n_configs = sizeof configs / sizeof configs[ 0 ];

struct ring_harness : sim::Harness
{
    const char* name() const override { return "ring_sim"; }
    std::vector< std::string > properties() const override { return { "C18" }; }
    std::string nontrivial_rule( const std::string& ) const override
    {
        return "seeded producer/consumer op sequences (alloc, alloc+fill+commit, peek, pop, more_than_one, reset) with PDU payloads 1..251 (the largest link layer payload) on pdu_ring_buffer for "
               "14 (size, layout) configurations, storage in an exactly sized heap block under ASan; non-trivial = at least 3 commits and at least one allocation that "
               "wrapped to the start while PDUs were live; distinct = distinct trace hashes";
    }
    std::vector< std::string > real_components() const override { return { "bluetoe/link_layer/ring_buffer.hpp", "bluetoe/link_layer/default_pdu_layout.hpp", "bluetoe/bindings/nordic/nrf.hpp (encrypted_pdu_layout)" }; }
    std::vector< std::string > stub_components() const override { return { "<nrf.h> register header (shim, unused by this harness)" }; }
    bool memory_safety_property( const std::string& ) const override { return true; }
    std::uint64_t default_runs( const std::string&, bool thorough ) const override { return thorough ? 3000000 : 80000; }
    std::vector< std::string > op_names() const override { return { "push", "alloc_only", "peek", "pop", "more_than_one", "reset" }; }

    sim::Plan generate( std::uint64_t seed, const std::string& property, bool thorough ) const override
    {
        sim::Rng rng( seed );
        sim::Plan p;
        p.harness = name(); p.property = property; p.seed = seed;
        p.config = static_cast< int >( rng.below( n_configs ) );
        const std::size_t size = configs[ p.config ].size;
        const unsigned n_ops = static_cast< unsigned >( rng.range( 4, thorough ? 200 : 80 ) );
        unsigned w[ op_count ];
        w[ op_push ] = static_cast< unsigned >( rng.range( 2, 10 ) );
        w[ op_alloc_only ] = static_cast< unsigned >( rng.range( 0, 3 ) );
        w[ op_peek ] = static_cast< unsigned >( rng.range( 0, 4 ) );
        w[ op_pop ] = static_cast< unsigned >( rng.range( 1, 10 ) );
        w[ op_more ] = static_cast< unsigned >( rng.range( 0, 3 ) );
        w[ op_reset ] = rng.chance( 10 ) ? 1 : 0;
        unsigned total = 0;
        for ( auto x : w ) total += x;
        // size classes: tiny, around a fraction of the ring, maximal
        const int mode = static_cast< int >( rng.below( 4 ) );
        for ( unsigned i = 0; i != n_ops; ++i )
        {
            unsigned r = static_cast< unsigned >( rng.below( total ) ), k = 0;
            while ( r >= w[ k ] ) { r -= w[ k ]; ++k; }
            std::int64_t payload = 0, extra = 0;
            switch ( mode )
            {
            case 0: payload = rng.range( 0, 254 ); break;
            case 1: payload = rng.range( 0, 12 ); break;
            case 2: payload = static_cast< std::int64_t >( size / static_cast< std::size_t >( rng.range( 2, 5 ) ) ) + rng.range( -4, 1 ); if ( payload < 0 ) payload = 0; break;
            case 3: payload = rng.chance( 50 ) ? rng.range( 20, 30 ) : rng.range( 0, 254 ); break;
            }
            if ( rng.chance( 30 ) ) extra = rng.range( 0, 30 );
            p.ops.push_back( sim::Op( static_cast< int >( k ), { payload, extra } ) );
        }
        return p;
    }

    void execute( const sim::Plan& plan, sim::Result& res ) const override
    {
        using def = bluetoe::link_layer::default_pdu_layout;
        using enc = bluetoe::nrf_details::encrypted_pdu_layout;
        const int c = ( ( plan.config % n_configs ) + n_configs ) % n_configs;
        res.note( "config %d", c );
        switch ( c )
        {
        case 0:  run< 31, def >( plan, res, "default" ); break;
        case 1:  run< 32, enc >( plan, res, "encrypted" ); break;
        case 2:  run< 40, def >( plan, res, "default" ); break;
        case 3:  run< 58, def >( plan, res, "default" ); break;
        case 4:  run< 61, enc >( plan, res, "encrypted" ); break;
        case 5:  run< 64, def >( plan, res, "default" ); break;
        case 6:  run< 100, def >( plan, res, "default" ); break;
        case 7:  run< 100, enc >( plan, res, "encrypted" ); break;
        case 8:  run< 128, enc >( plan, res, "encrypted" ); break;
        case 9:  run< 255, def >( plan, res, "default" ); break;
        case 10: run< 258, enc >( plan, res, "encrypted" ); break;
        case 11: run< 300, def >( plan, res, "default" ); break;
        case 12: run< 512, def >( plan, res, "default" ); break;
        case 13: run< 1024, enc >( plan, res, "encrypted" ); break;
        }
    }

    std::vector< sim::Op > simplify( const sim::Plan& plan, std::size_t i ) const override
    {
        std::vector< sim::Op > r;
        const sim::Op& op = plan.ops[ i ];
        if ( op.arg( 1 ) > 0 ) { sim::Op c = op; c.a[ 1 ] = 0; r.push_back( c ); }
        if ( op.arg( 0 ) > 0 ) { sim::Op c = op; c.a[ 0 ] = op.arg( 0 ) / 2; r.push_back( c ); c.a[ 0 ] = op.arg( 0 ) - 1; r.push_back( c ); }
        return r;
    }
};

}

int main( int argc, char** argv )
{
    ring_harness h;
    return sim::sim_main( argc, argv, h );
}
