// sm_sim - security manager against a reference SMP initiator (C32, C33, C34, C35, C38)
//
// Parties: SMP initiator (reference implementation of the central side written from
// Core Vol 3 Part H with OpenSSL: c1, s1, f4, f5, f6, g2, P-256; honest and hostile),
// the user (yes/no answers and passkeys, possibly late, possibly after the connection
// they were asked on is gone), the link layer (polls l2cap_output, asks for keys with
// arbitrary EDIV/Rand, switches encryption, disconnects and reconnects), the
// application's bond data base (durable across connections).
//
// Real code: legacy_security_manager / lesc_security_manager / security_manager impls
// with their connection data, io_capabilities, oob_authentication, bonding_data_base
// glue, and the nRF52 security tool box (security_tool_box.cpp + uECC) running over the
// emulated RNG and ECB registers of shim/nrf.h.
// Stubs: user I/O objects, OOB provider, bond data base, link layer, RNG/ECB hardware.
#include <iterator>
#include <array>
#include <algorithm>
#include <cstring>
#include <cmath>
#include <memory>
#include <sstream>
#include <tuple>

#include <bluetoe/security_manager.hpp>
#include <bluetoe/security_tool_box.hpp>
#include <nrf.h>

#include <openssl/evp.h>
#include <openssl/cmac.h>
#include <openssl/ec.h>
#include <openssl/bn.h>
#include <openssl/obj_mac.h>

#include "../sim/sim.hpp"

using bluetoe::link_layer::device_address;
using bluetoe::details::uint128_t;
using bluetoe::details::longterm_key_t;
using bluetoe::device_pairing_status;

namespace {

using u128  = std::array< std::uint8_t, 16 >;
using bytes = std::vector< std::uint8_t >;

// ===================================================================== reference crypto (all values in wire order = little endian)
namespace ref {

    void aes_be( const std::uint8_t* key, const std::uint8_t* in, std::uint8_t* out )
    {
        EVP_CIPHER_CTX* ctx = EVP_CIPHER_CTX_new();
        int len = 0;
        EVP_EncryptInit_ex( ctx, EVP_aes_128_ecb(), nullptr, key, nullptr );
        EVP_CIPHER_CTX_set_padding( ctx, 0 );
        EVP_EncryptUpdate( ctx, out, &len, in, 16 );
        EVP_CIPHER_CTX_free( ctx );
    }

    u128 rev( const u128& a ) { u128 r; std::reverse_copy( a.begin(), a.end(), r.begin() ); return r; }

    u128 e( const u128& key, const u128& data )
    {
        const u128 k = rev( key ), d = rev( data );
        u128 o;
        aes_be( k.data(), d.data(), o.data() );
        return rev( o );
    }

    u128 xor_( u128 a, const u128& b ) { for ( int i = 0; i != 16; ++i ) a[ i ] ^= b[ i ]; return a; }

    // AES-CMAC, key and message big endian, result big endian
    u128 cmac_be( const std::uint8_t* key, const bytes& msg )
    {
        CMAC_CTX* ctx = CMAC_CTX_new();
        u128 out{};
        std::size_t len = 0;
        CMAC_Init( ctx, key, 16, EVP_aes_128_cbc(), nullptr );
        CMAC_Update( ctx, msg.data(), msg.size() );
        CMAC_Final( ctx, out.data(), &len );
        CMAC_CTX_free( ctx );
        return out;
    }

    void append_rev( bytes& m, const std::uint8_t* p, std::size_t n ) { for ( std::size_t i = n; i != 0; --i ) m.push_back( p[ i - 1 ] ); }

    void append_addr( bytes& m, const device_address& a )
    {
        m.push_back( a.is_random() ? 1 : 0 );
        append_rev( m, a.begin(), 6 );
    }

    // c1( k, r, preq, pres, iat, rat, ia, ra )
    u128 c1( const u128& k, const u128& r, const std::uint8_t* preq, const std::uint8_t* pres, const device_address& ia, const device_address& ra )
    {
        u128 p1{}, p2{};
        p1[ 0 ] = ia.is_random() ? 1 : 0;
        p1[ 1 ] = ra.is_random() ? 1 : 0;
        std::copy( preq, preq + 7, &p1[ 2 ] );
        std::copy( pres, pres + 7, &p1[ 9 ] );
        std::copy( ra.begin(), ra.end(), &p2[ 0 ] );
        std::copy( ia.begin(), ia.end(), &p2[ 6 ] );
        return e( k, xor_( e( k, xor_( r, p1 ) ), p2 ) );
    }

    // s1( k, r1, r2 ): r' = r1'[ least 64 bit ] || r2'[ least 64 bit ]
    u128 s1( const u128& k, const u128& r1, const u128& r2 )
    {
        u128 r{};
        std::copy( r2.begin(), r2.begin() + 8, r.begin() );
        std::copy( r1.begin(), r1.begin() + 8, r.begin() + 8 );
        return e( k, r );
    }

    u128 f4( const std::uint8_t* u, const std::uint8_t* v, const u128& x, std::uint8_t z )
    {
        bytes m;
        append_rev( m, u, 32 );
        append_rev( m, v, 32 );
        m.push_back( z );
        return rev( cmac_be( rev( x ).data(), m ) );
    }

    std::pair< u128, u128 > f5( const std::array< std::uint8_t, 32 >& w, const u128& n1, const u128& n2, const device_address& a1, const device_address& a2 )
    {
        static const std::uint8_t salt[ 16 ] = { 0x6C, 0x88, 0x83, 0x91, 0xAA, 0xF5, 0xA5, 0x38, 0x60, 0x37, 0x0B, 0xDB, 0x5A, 0x60, 0x83, 0xBE };
        bytes wbe;
        append_rev( wbe, w.data(), 32 );
        const u128 t = cmac_be( salt, wbe );

        u128 out[ 2 ];
        for ( std::uint8_t counter = 0; counter != 2; ++counter )
        {
            bytes m;
            m.push_back( counter );
            m.push_back( 0x62 ); m.push_back( 0x74 ); m.push_back( 0x6c ); m.push_back( 0x65 );
            append_rev( m, n1.data(), 16 );
            append_rev( m, n2.data(), 16 );
            append_addr( m, a1 );
            append_addr( m, a2 );
            m.push_back( 0x01 ); m.push_back( 0x00 );
            out[ counter ] = rev( cmac_be( t.data(), m ) );
        }
        return { out[ 0 ], out[ 1 ] };   // mac key, ltk
    }

    // io_caps in wire order: io capability, oob flag, auth req
    u128 f6( const u128& w, const u128& n1, const u128& n2, const u128& r, const std::uint8_t* io_caps, const device_address& a1, const device_address& a2 )
    {
        bytes m;
        append_rev( m, n1.data(), 16 );
        append_rev( m, n2.data(), 16 );
        append_rev( m, r.data(), 16 );
        append_rev( m, io_caps, 3 );
        append_addr( m, a1 );
        append_addr( m, a2 );
        return rev( cmac_be( rev( w ).data(), m ) );
    }

    std::uint32_t g2( const std::uint8_t* u, const std::uint8_t* v, const u128& x, const u128& y )
    {
        bytes m;
        append_rev( m, u, 32 );
        append_rev( m, v, 32 );
        append_rev( m, y.data(), 16 );
        const u128 r = cmac_be( rev( x ).data(), m );
        return ( std::uint32_t( r[ 12 ] ) << 24 ) | ( std::uint32_t( r[ 13 ] ) << 16 ) | ( std::uint32_t( r[ 14 ] ) << 8 ) | r[ 15 ];
    }

    struct keypair {
        std::array< std::uint8_t, 32 > priv_be;
        std::array< std::uint8_t, 64 > pub;      // wire order: x little endian, y little endian
    };

    EC_GROUP* group()
    {
        static EC_GROUP* g = EC_GROUP_new_by_curve_name( NID_X9_62_prime256v1 );
        return g;
    }

    keypair make_key( std::uint64_t seed )
    {
        keypair k;
        sim::Rng rng( seed * 77 + 5 );
        for ( auto& b : k.priv_be ) b = rng.byte();
        k.priv_be[ 0 ] &= 0x7f; k.priv_be[ 31 ] |= 1;
        BN_CTX*   ctx = BN_CTX_new();
        BIGNUM*   d   = BN_bin2bn( k.priv_be.data(), 32, nullptr );
        EC_POINT* p   = EC_POINT_new( group() );
        BIGNUM*   x   = BN_new();
        BIGNUM*   y   = BN_new();
        EC_POINT_mul( group(), p, d, nullptr, nullptr, ctx );
        EC_POINT_get_affine_coordinates( group(), p, x, y, ctx );
        std::uint8_t be[ 32 ];
        BN_bn2binpad( x, be, 32 ); std::reverse_copy( be, be + 32, k.pub.begin() );
        BN_bn2binpad( y, be, 32 ); std::reverse_copy( be, be + 32, k.pub.begin() + 32 );
        BN_free( x ); BN_free( y ); BN_free( d ); EC_POINT_free( p ); BN_CTX_free( ctx );
        return k;
    }

    bool on_curve( const std::uint8_t* pub )
    {
        std::uint8_t be[ 32 ];
        BN_CTX*   ctx = BN_CTX_new();
        EC_POINT* p   = EC_POINT_new( group() );
        std::reverse_copy( pub, pub + 32, be );      BIGNUM* x = BN_bin2bn( be, 32, nullptr );
        std::reverse_copy( pub + 32, pub + 64, be ); BIGNUM* y = BN_bin2bn( be, 32, nullptr );
        const bool ok = EC_POINT_set_affine_coordinates( group(), p, x, y, ctx ) == 1;
        BN_free( x ); BN_free( y ); EC_POINT_free( p ); BN_CTX_free( ctx );
        return ok;
    }

    // DH key in wire order (little endian); false if the peer key is not a point of the curve
    bool dh( const std::array< std::uint8_t, 32 >& priv_be, const std::uint8_t* pub, std::array< std::uint8_t, 32 >& out )
    {
        std::uint8_t be[ 32 ];
        BN_CTX*   ctx = BN_CTX_new();
        EC_POINT* p   = EC_POINT_new( group() );
        EC_POINT* r   = EC_POINT_new( group() );
        std::reverse_copy( pub, pub + 32, be );      BIGNUM* x = BN_bin2bn( be, 32, nullptr );
        std::reverse_copy( pub + 32, pub + 64, be ); BIGNUM* y = BN_bin2bn( be, 32, nullptr );
        BIGNUM* d = BN_bin2bn( priv_be.data(), 32, nullptr );
        bool ok = EC_POINT_set_affine_coordinates( group(), p, x, y, ctx ) == 1;
        if ( ok ) ok = EC_POINT_mul( group(), r, nullptr, p, d, ctx ) == 1;
        if ( ok ) ok = EC_POINT_get_affine_coordinates( group(), r, x, nullptr, ctx ) == 1;
        if ( ok ) { BN_bn2binpad( x, be, 32 ); std::reverse_copy( be, be + 32, out.begin() ); }
        BN_free( x ); BN_free( y ); BN_free( d ); EC_POINT_free( p ); EC_POINT_free( r ); BN_CTX_free( ctx );
        return ok;
    }

    const keypair& pool_key( std::size_t i )
    {
        static const keypair pool[ 3 ] = { make_key( 1 ), make_key( 2 ), make_key( 3 ) };
        return pool[ i % 3 ];
    }
}

// ===================================================================== emulated hardware behind shim/nrf.h
enum { rng_uniform, rng_high_bytes, rng_ff_runs, rng_low_bytes, rng_modes };

struct hw_state {
    sim::Rng      rng{ 1 };
    int           mode = rng_uniform;
    unsigned      ff_left = 0;
    std::uint64_t bytes_drawn = 0;
} g_hw;

std::uint8_t hw_rng_byte()
{
    ++g_hw.bytes_drawn;
    const std::uint64_t x = g_hw.rng.next();
    std::uint8_t b = static_cast< std::uint8_t >( x );
    switch ( g_hw.mode )
    {
    case rng_high_bytes: if ( ( x >> 8 ) % 4 != 0 ) b |= 0xe0; break;
    case rng_low_bytes:  if ( ( x >> 8 ) % 4 != 0 ) b &= 0x07; break;
    case rng_ff_runs:
        if ( g_hw.ff_left ) { --g_hw.ff_left; b = 0xff; }
        else if ( ( x >> 8 ) % 16 == 0 ) g_hw.ff_left = static_cast< unsigned >( ( x >> 16 ) % 12 );
        break;
    default: break;
    }
    return b;
}

void hw_ecb( std::uint8_t* p )
{
    ref::aes_be( p, p + 16, p + 32 );
}

// ===================================================================== stubs: user, OOB provider, bond data base
enum { user_sync_yes, user_sync_no, user_deferred };

struct io_stub
{
    std::vector< int >                  displayed;
    unsigned                            asked = 0, keyboard_calls = 0, oob_calls = 0;
    int                                 user_mode = user_deferred;
    bluetoe::pairing_yes_no_response*   pending = nullptr;
    unsigned                            pending_epoch = 0;      // connection epoch at which the pending question was asked
    unsigned                            epoch = 0;
    int                                 passkey = 0;
    unsigned                            oob_mask = 0;           // bit i: OOB data available for peer i
    u128                                oob_data{};
    device_address                      peers[ 3 ];

    void sm_pairing_numeric_output( int v ) { displayed.push_back( v ); }

    void sm_pairing_yes_no( bluetoe::pairing_yes_no_response& r )
    {
        ++asked;
        if ( user_mode == user_sync_yes )      r.yes_no_response( true );
        else if ( user_mode == user_sync_no )  r.yes_no_response( false );
        else { pending = &r; pending_epoch = epoch; }
    }

    int sm_pairing_passkey() { ++keyboard_calls; return passkey; }

    std::pair< bool, bluetoe::oob_authentication_data_t > sm_oob_authentication_data( const device_address& a )
    {
        ++oob_calls;
        for ( unsigned i = 0; i != 3; ++i )
            if ( peers[ i ] == a && peers[ i ].is_random() == a.is_random() && ( oob_mask & ( 1u << i ) ) )
                return { true, oob_data };
        return { false, bluetoe::oob_authentication_data_t{{ 0 }} };
    }
} g_io;

struct bond_db_stub
{
    struct entry { longterm_key_t key; device_address peer; };
    std::vector< entry >    bonds;
    std::vector< longterm_key_t > created;
    sim::Rng                rng{ 7 };
    int                     ediv_rand_mode = 0;     // 0: random non-zero, 1: ediv 0, 2: both 0
    unsigned                restored = 0;

    template < class Radio >
    longterm_key_t create_new_bond( Radio&, const device_address& )
    {
        longterm_key_t k;
        for ( auto& b : k.longterm_key ) b = rng.byte();
        k.rand = rng.next() | 1;
        k.ediv = static_cast< std::uint16_t >( rng.next() | 1 );
        if ( ediv_rand_mode >= 1 ) k.ediv = 0;
        if ( ediv_rand_mode >= 2 ) k.rand = 0;
        created.push_back( k );
        return k;
    }

    template < class Connection >
    void store_bond( const longterm_key_t& k, const Connection& c ) { bonds.push_back( entry{ k, c.remote_address() } ); }

    std::pair< bool, uint128_t > find_key( std::uint16_t ediv, std::uint64_t rand, const device_address& peer ) const
    {
        for ( auto i = bonds.rbegin(); i != bonds.rend(); ++i )
            if ( i->key.ediv == ediv && i->key.rand == rand && i->peer == peer && i->peer.is_random() == peer.is_random() )
                return { true, i->key.longterm_key };
        return std::pair< bool, uint128_t >{};
    }

    template < class Connection >
    void restore_cccds( Connection& ) { ++restored; }
} g_db;

device_address g_local;

struct toolbox : bluetoe::nrf52_details::security_tool_box
{
    device_address local_address() const { return g_local; }
};

template < class Manager, class... Options >
struct sm_inst : Manager::template impl< sm_inst< Manager, Options... >, Options... >, toolbox
{
    using impl_t = typename Manager::template impl< sm_inst< Manager, Options... >, Options... >;
    using conn_t = typename impl_t::template channel_data_t< bluetoe::details::link_state >;
    static constexpr std::size_t mtu = impl_t::maximum_channel_mtu_size;
};

using opt_display  = bluetoe::pairing_numeric_output< io_stub, g_io >;
using opt_yes_no   = bluetoe::pairing_yes_no< io_stub, g_io >;
using opt_keyboard = bluetoe::pairing_keyboard< io_stub, g_io >;
using opt_oob      = bluetoe::oob_authentication_callback< io_stub, g_io >;
using opt_bonding  = bluetoe::bonding_data_base< bond_db_stub, g_db >;

struct config_info {
    const char* name;
    int  variant;       // 0 legacy, 1 lesc, 2 combined
    bool display, yes_no, keyboard, oob, bonding;
};

const config_info configs[] = {
    { "legacy",                         0, false, false, false, false, false },
    { "legacy+display",                 0, true,  false, false, false, false },
    { "legacy+keyboard",                0, false, false, true,  false, false },
    { "legacy+keyboard+display",        0, true,  false, true,  false, false },
    { "legacy+oob",                     0, false, false, false, true,  false },
    { "legacy+display+bonding",         0, true,  false, false, false, true  },
    { "legacy+bonding",                 0, false, false, false, false, true  },
    { "legacy+display+yesno+oob+bonding", 0, true, true, false, true,  true  },
    { "lesc",                           1, false, false, false, false, false },
    { "lesc+display+yesno",             1, true,  true,  false, false, false },
    { "lesc+display+yesno+bonding",     1, true,  true,  false, false, true  },
    { "lesc+display",                   1, true,  false, false, false, false },
    { "combined",                       2, false, false, false, false, false },
    { "combined+display+yesno",         2, true,  true,  false, false, false },
    { "combined+display+yesno+oob+bonding", 2, true, true, false, true, true },
    { "combined+display+bonding",       2, true,  false, false, false, true  },
};
constexpr int n_configs = sizeof( configs ) / sizeof( configs[ 0 ] );

// ===================================================================== plan vocabulary
enum { op_request, op_confirm, op_random, op_pubkey, op_dhkey, op_failed, op_raw, op_poll, op_user, op_enc_req, op_enc_set, op_disconnect, op_draw, op_count };
enum { tk_zero, tk_oob, tk_keyboard, tk_display_peek, tk_wrong, tk_sources };

const char* status_name( device_pairing_status s )
{
    switch ( s )
    {
    case device_pairing_status::no_key: return "no_key";
    case device_pairing_status::unauthenticated_key: return "unauthenticated";
    case device_pairing_status::authenticated_key: return "authenticated";
    default: return "other";
    }
}

// ===================================================================== the world
enum mstate { m_idle, m_leg_requested, m_leg_confirmed, m_completed, m_lesc_requested, m_lesc_keys, m_lesc_confirm_sent, m_lesc_random,
              m_nc_wait, m_nc_wait_ea, m_nc_yes, m_nc_yes_ea, m_nc_no };

const char* mstate_name( int s )
{
    static const char* n[] = { "idle", "legacy-requested", "legacy-confirmed", "completed", "lesc-requested", "lesc-keys-exchanged", "lesc-confirm-sent", "lesc-random-exchanged",
                               "nc-wait", "nc-wait-have-ea", "nc-yes", "nc-yes-have-ea", "nc-no" };
    return n[ s ];
}

template < class SM >
struct world
{
    const config_info&  cfg;
    const sim::Plan&    plan;
    sim::Result&        res;
    SM                  sm;
    typename SM::conn_t conn;

    // --- link
    unsigned            peer = 0;
    bool                enc = false;

    // --- model of the responder
    int                 st = m_idle;
    bool                lesc = false;
    std::uint8_t        preq[ 7 ] = { 0 }, pres[ 7 ] = { 0 };
    u128                mconfirm{}, tk{}, srand{}, mrand{};
    int                 tk_source_used = tk_zero;       // what the responder's TK came from
    std::array< std::uint8_t, 64 > pka{}, pkb{};
    int                 ini_key = -1;                   // index of the initiator's key pair (private key known) or -1
    u128                na{}, nb{}, mackey{}, model_key{};
    bool                have_dh = false;
    bool                ea_valid = false, ea_received = false;
    bool                nc = false, user_confirmed = false;
    bool                authenticated = false;
    unsigned            completed_pairings = 0, completed_with_bond = 0;
    unsigned            enc_info_sent = 0, central_id_sent = 0;
    std::size_t         bonds_created_at_connect = 0;

    // --- initiator memory
    u128                ini_mrand{}; bool ini_has_mrand = false;
    u128                ini_tk{};

    // --- statistics / non-triviality
    unsigned            n_completed = 0, n_failed = 0, n_mutated_rejected = 0, n_stale_user = 0, n_keys_distributed = 0, n_passkeys = 0, n_auth = 0;
    bool                fault_seen = false;

    world( const config_info& c, const sim::Plan& p, sim::Result& r ) : cfg( c ), plan( p ), res( r ) {}

    long idx = -1;
    std::uint64_t rng_before = 0;

    std::string ctx() const
    {
        return std::string( cfg.variant == 0 ? "legacy-sm" : cfg.variant == 1 ? "lesc-sm" : "combined-sm" );
    }

    // ------------------------------------------------------------------ transport
    struct reply { bool any = false; bytes pdu; };

    void check_outgoing( const bytes& pdu, const char* how )
    {
        if ( pdu.empty() ) return;
        // taint: a created long term key never leaves the device over an unencrypted link
        if ( !enc )
            for ( const auto& k : g_db.created )
                if ( pdu.size() >= 16 && std::search( pdu.begin(), pdu.end(), k.longterm_key.begin(), k.longterm_key.end() ) != pdu.end() )
                    res.violate( "C34", "ltk-on-unencrypted-link", "ltk-on-unencrypted-link", idx, "%s %s contains a bond's long term key while the link is not encrypted", how, sim::hex( pdu ).c_str() );
    }

    reply feed( const bytes& in )
    {
        // exactly sized heap blocks: a read past in_size or a write past the channel MTU is an ASan report
        std::unique_ptr< std::uint8_t[] > ib( new std::uint8_t[ in.size() ] );
        std::copy( in.begin(), in.end(), ib.get() );
        std::unique_ptr< std::uint8_t[] > ob( new std::uint8_t[ SM::mtu ] );
        std::memset( ob.get(), 0xa5, SM::mtu );
        std::size_t out_size = SM::mtu;
        sm.l2cap_input( ib.get(), in.size(), ob.get(), out_size, conn );
        reply r;
        if ( out_size > SM::mtu )
        {
            res.violate( "C32", "output-size", "output-size", idx, "l2cap_input reports %zu output bytes for a buffer of %zu", out_size, (std::size_t)SM::mtu );
            out_size = SM::mtu;
        }
        r.any = out_size != 0;
        r.pdu.assign( ob.get(), ob.get() + out_size );
        res.note_bytes( "  <-", r.pdu.data(), r.pdu.size() );
        check_outgoing( r.pdu, "response" );
        return r;
    }

    reply poll_once()
    {
        std::unique_ptr< std::uint8_t[] > ob( new std::uint8_t[ SM::mtu ] );
        std::memset( ob.get(), 0xa5, SM::mtu );
        std::size_t out_size = SM::mtu;
        sm.l2cap_output( ob.get(), out_size, conn );
        reply r;
        if ( out_size > SM::mtu ) out_size = SM::mtu;
        r.any = out_size != 0;
        r.pdu.assign( ob.get(), ob.get() + out_size );
        if ( r.any ) res.note_bytes( "  poll <-", r.pdu.data(), r.pdu.size() );
        check_outgoing( r.pdu, "polled PDU" );
        return r;
    }

    static bool is_failed( const reply& r ) { return r.pdu.size() == 2 && r.pdu[ 0 ] == 0x05; }

    void to_idle( bool failed )
    {
        if ( failed ) ++n_failed;
        st = m_idle;
        ini_has_mrand = false;
        have_dh = false; ea_valid = false; ea_received = false; nc = false; user_confirmed = false; authenticated = false; ini_key = -1;
    }

    void complete( const u128& key, bool auth, bool legacy )
    {
        st = m_completed;
        model_key = key;
        authenticated = auth;
        ++completed_pairings; ++n_completed;
        if ( auth ) ++n_auth;
        if ( legacy && cfg.bonding ) ++completed_with_bond;
        res.note( "  model: pairing completed, %s, key %s", auth ? "authenticated" : "unauthenticated", sim::hex( key.data(), 16 ).c_str() );
    }

    const device_address& peer_addr() const { return g_io.peers[ peer ]; }

    // ------------------------------------------------------------------ model helpers
    void compute_lesc_secrets()
    {
        have_dh = false;
        if ( ini_key < 0 ) return;
        std::array< std::uint8_t, 32 > dhkey;
        if ( !ref::dh( ref::pool_key( ini_key ).priv_be, pkb.data(), dhkey ) ) return;
        std::tie( mackey, model_key ) = ref::f5( dhkey, na, nb, peer_addr(), g_local );
        have_dh = true;
    }

    // what an initiator that goes on with the values of an earlier, aborted exchange would send as its DHKey check
    void remember_stale_ea() { if ( have_dh ) { stale_ea = expected_ea(); stale_ea_valid = true; } }

    u128 stale_ea{};
    bool stale_ea_valid = false;

    u128 expected_ea() const
    {
        const u128 zero{};
        return ref::f6( mackey, na, nb, zero, &preq[ 1 ], peer_addr(), g_local );
    }

    // an outgoing DHKey check (Eb) is legitimate only after a valid Ea was received in this exchange
    void dhkey_emitted( const char* how )
    {
        if ( !( ea_received && ea_valid ) )
            res.violate( "C32", "dhkey-check-before-verify", std::string( "dhkey-check-before-verify " ) + ( ea_received ? "ea-invalid" : "ea-not-received" ) + " " + mstate_name( st ), idx,
                         "%s: the peripheral sent its DHKey check (Eb) %s (model state %s, %s)", how,
                         ea_received ? "although the central's DHKey check (Ea) that was received is wrong" : "before any DHKey check (Ea) of the central was received",
                         mstate_name( st ), ctx().c_str() );
    }

    // ------------------------------------------------------------------ input PDUs
    enum verdict { must_fail, must_accept, may_accept, silent_ok, either };

    void input( const bytes& in, const char* what )
    {
        res.note_bytes( what, in.data(), in.size() );
        const unsigned asked_before = g_io.asked;
        const std::size_t displayed_before = g_io.displayed.size();
        const unsigned keyboard_before = g_io.keyboard_calls;
        rng_before = g_hw.bytes_drawn;
        const int st_before = st;

        // ---- classify by the model
        verdict v = must_fail;
        std::uint8_t expect_opcode = 0;
        const std::uint8_t opcode = in.empty() ? 0 : in[ 0 ];

        if ( opcode == 0x01 && in.size() == 7 && ( st == m_idle || st == m_completed ) )
        {
            const bool bad   = in[ 1 ] > 4 || in[ 2 ] > 1 || in[ 4 ] < 7 || in[ 4 ] > 16;
            const bool rfu   = ( in[ 3 ] & 0xc0 ) || ( in[ 5 ] & 0xf0 ) || ( in[ 6 ] & 0xf0 );
            const bool sc    = ( in[ 3 ] & 0x08 ) != 0;
            if ( bad ) v = must_fail;
            else if ( rfu || st == m_completed || ( cfg.variant == 1 && !sc ) ) v = either;
            else v = must_accept;
            expect_opcode = 0x02;
        }
        else if ( opcode == 0x03 && in.size() == 17 && st == m_leg_requested ) { v = may_accept; expect_opcode = 0x03; }
        else if ( opcode == 0x04 && in.size() == 17 && st == m_leg_confirmed )
        {
            u128 r; std::copy( in.begin() + 1, in.end(), r.begin() );
            // TK the responder used: decided when its confirm was produced (see below)
            const u128 expected = ref::c1( tk, r, preq, pres, peer_addr(), g_local );
            v = expected == mconfirm ? may_accept : must_fail;
            expect_opcode = 0x04;
        }
        else if ( opcode == 0x0c && in.size() == 65 && st == m_lesc_requested )
        {
            v = ref::on_curve( &in[ 1 ] ) ? may_accept : must_fail;
            expect_opcode = 0x0c;
        }
        else if ( opcode == 0x04 && in.size() == 17 && st == m_lesc_confirm_sent ) { v = may_accept; expect_opcode = 0x04; }
        else if ( opcode == 0x0d && in.size() == 17 && ( st == m_lesc_random || st == m_nc_yes || st == m_nc_yes_ea ) )
        {
            u128 ea; std::copy( in.begin() + 1, in.end(), ea.begin() );
            const bool valid = have_dh && ea == expected_ea();
            ea_received = true; ea_valid = valid;
            v = valid ? may_accept : must_fail;
            expect_opcode = 0x0d;
        }
        else if ( opcode == 0x0d && in.size() == 17 && ( st == m_nc_wait || st == m_nc_wait_ea ) )
        {
            u128 ea; std::copy( in.begin() + 1, in.end(), ea.begin() );
            ea_received = true; ea_valid = have_dh && ea == expected_ea();
            v = silent_ok;
        }

        const reply r = feed( in );
        const bool failed = is_failed( r );
        const std::uint8_t ropcode = r.pdu.empty() ? 0 : r.pdu[ 0 ];
        const std::string where = std::string( mstate_name( st_before ) ) + " pdu=" + sim::hex( &opcode, 1 );

        // ---- rules that hold whatever the verdict
        if ( r.any && ropcode == 0x0d && r.pdu.size() == 17 ) dhkey_emitted( "response" );

        auto wrong = [&]( const char* rule, const char* text ) {
            res.violate( "C32", rule, std::string( rule ) + " " + where, idx, "%s: %s in model state %s answered with %s (%s)", text, sim::hex( in ).c_str(), mstate_name( st_before ),
                         r.any ? sim::hex( r.pdu ).c_str() : "nothing", ctx().c_str() );
        };

        switch ( v )
        {
        case must_fail:
            if ( !failed )
            {
                if ( st_before == m_leg_confirmed && opcode == 0x04 && in.size() == 17 && ropcode == 0x04 )
                    wrong( "srand-revealed-unverified", "the peripheral revealed its random value although the central's confirm value does not verify" );
                else if ( r.any && ropcode == 0x0d )
                    ;   // reported by dhkey_emitted()
                else if ( r.any )
                    wrong( "accepted-out-of-order", "a PDU that is out of order, malformed or invalid was not answered with Pairing Failed" );
                else
                    wrong( "not-answered", "a PDU that is out of order, malformed or invalid got no Pairing Failed" );
            }
            if ( st_before != m_idle && st_before != m_completed ) ++n_mutated_rejected;
            to_idle( true );
            break;

        case silent_ok:
            if ( failed ) to_idle( true );
            else if ( r.any ) { wrong( "wrong-response", "unexpected answer while waiting for the user" ); to_idle( false ); }
            else st = m_nc_wait_ea;
            break;

        case must_accept:
        case may_accept:
        case either:
            if ( failed )
            {
                if ( v == must_accept )
                    wrong( "idle-request-rejected", "a valid Pairing Request was rejected although pairing must be idle (after a failure, a disconnect or at start)" );
                to_idle( true );
            }
            else if ( !r.any || ropcode != expect_opcode )
            {
                wrong( "wrong-response", "a valid, in-order step got neither the specified answer nor Pairing Failed" );
                to_idle( false );
            }
            else
                accepted( in, r, asked_before, displayed_before, keyboard_before );
            break;
        }
    }

    void accepted( const bytes& in, const reply& r, unsigned asked_before, std::size_t displayed_before, unsigned keyboard_before )
    {
        switch ( in[ 0 ] )
        {
        case 0x01:
            if ( r.pdu.size() != 7 ) { res.violate( "C32", "wrong-response", "wrong-response size pairing-response", idx, "pairing response of %zu bytes", r.pdu.size() ); to_idle( false ); return; }
            to_idle( false );
            std::copy( in.begin(), in.end(), preq );
            std::copy( r.pdu.begin(), r.pdu.end(), pres );
            lesc = ( preq[ 3 ] & 0x08 ) && ( pres[ 3 ] & 0x08 );
            st = lesc ? m_lesc_requested : m_leg_requested;
            break;

        case 0x03:  // legacy confirm -> Sconfirm; the responder fixed its TK now
            std::copy( in.begin() + 1, in.end(), mconfirm.begin() );
            tk = u128{};
            // a passkey was generated for display iff the RNG was used while the confirm was handled and something was shown
            // (the implementation also shows the low 32 bit of an all-zero or OOB temporary key; that is no generated passkey)
            if ( g_io.displayed.size() != displayed_before && g_hw.bytes_drawn != rng_before )
            {
                const int shown = g_io.displayed.back();
                ++n_passkeys;
                if ( shown < 0 || shown > 999999 )
                    res.violate( "C38", "passkey-range", "passkey-range displayed", idx, "the passkey shown to the user is %d (not a six digit value)", shown );
                tk[ 0 ] = shown & 0xff; tk[ 1 ] = ( shown >> 8 ) & 0xff; tk[ 2 ] = ( shown >> 16 ) & 0xff; tk[ 3 ] = ( shown >> 24 ) & 0xff;
                tk_source_used = tk_display_peek;
            }
            else if ( g_io.keyboard_calls != keyboard_before )
            {
                const int k = g_io.passkey;
                tk[ 0 ] = k & 0xff; tk[ 1 ] = ( k >> 8 ) & 0xff; tk[ 2 ] = ( k >> 16 ) & 0xff; tk[ 3 ] = ( k >> 24 ) & 0xff;
                tk_source_used = tk_keyboard;
            }
            else if ( cfg.oob && preq[ 2 ] == 1 && ( g_io.oob_mask & ( 1u << peer ) ) )
            {
                tk = g_io.oob_data;
                tk_source_used = tk_oob;
            }
            else
                tk_source_used = tk_zero;
            st = m_leg_confirmed;
            break;

        case 0x04:
            if ( r.pdu.size() != 17 ) { res.violate( "C32", "wrong-response", "wrong-response size pairing-random", idx, "pairing random of %zu bytes", r.pdu.size() ); to_idle( false ); return; }
            if ( st == m_leg_confirmed )
            {
                std::copy( in.begin() + 1, in.end(), mrand.begin() );
                std::copy( r.pdu.begin() + 1, r.pdu.end(), srand.begin() );
                complete( ref::s1( tk, srand, mrand ), tk_source_used != tk_zero, true );
            }
            else
            {
                std::copy( in.begin() + 1, in.end(), na.begin() );
                std::copy( r.pdu.begin() + 1, r.pdu.end(), nb.begin() );
                compute_lesc_secrets();
                remember_stale_ea();
                if ( g_io.asked != asked_before )
                {
                    nc = true;
                    if ( g_io.user_mode == user_sync_yes )      { user_confirmed = true; st = m_nc_yes; }
                    else if ( g_io.user_mode == user_sync_no )  { user_confirmed = false; st = m_nc_yes; res.probe( "continued_after_sync_no" ); }
                    else st = m_nc_wait;
                }
                else
                {
                    nc = false;
                    st = m_lesc_random;
                }
            }
            break;

        case 0x0c:
            if ( r.pdu.size() != 65 ) { res.violate( "C32", "wrong-response", "wrong-response size public-key", idx, "public key of %zu bytes", r.pdu.size() ); to_idle( false ); return; }
            std::copy( in.begin() + 1, in.end(), pka.begin() );
            std::copy( r.pdu.begin() + 1, r.pdu.end(), pkb.begin() );
            st = m_lesc_keys;
            break;

        case 0x0d:
            // Eb in answer to a valid Ea
            complete( model_key, nc && user_confirmed, false );
            break;
        }
    }

    // ------------------------------------------------------------------ polls
    void poll()
    {
        const reply r = poll_once();
        if ( !r.any ) return;
        const std::uint8_t opcode = r.pdu[ 0 ];
        switch ( opcode )
        {
        case 0x03:
            if ( st == m_lesc_keys && r.pdu.size() == 17 ) st = m_lesc_confirm_sent;
            else unsolicited( r );
            break;
        case 0x0d:
            if ( st == m_nc_yes_ea && ea_valid && r.pdu.size() == 17 ) complete( model_key, nc && user_confirmed, false );
            else if ( st == m_nc_yes_ea || st == m_nc_yes ) dhkey_emitted( "polled output" );   // the model keeps waiting for a valid Ea
            else unsolicited( r );
            break;
        case 0x05:
            // Pairing Failed may be sent at any time; pairing is idle afterwards. But "DHKey check failed" says that a check value of the central
            // was verified: there must have been one in this exchange
            if ( r.pdu.size() == 2 && r.pdu[ 1 ] == 0x0b && !ea_received && st != m_idle )
                res.violate( "C32", "dhkey-check-failed-without-check", std::string( "dhkey-check-failed-without-check " ) + mstate_name( st ), idx,
                             "l2cap_output produced Pairing Failed (DHKey Check Failed) in model state %s although the central has not sent a DHKey check in this exchange (%s)", mstate_name( st ), ctx().c_str() );
            to_idle( true );
            break;
        case 0x06:
        case 0x07:
            key_distribution( r );
            break;
        default:
            unsolicited( r );
        }
    }

    void unsolicited( const reply& r )
    {
        res.violate( "C32", "unsolicited-output", std::string( "unsolicited-output " ) + sim::hex( r.pdu.data(), 1 ) + " " + mstate_name( st ), idx,
                     "l2cap_output produced %s in model state %s where no pairing step is due (%s)", sim::hex( r.pdu ).c_str(), mstate_name( st ), ctx().c_str() );
    }

    void key_distribution( const reply& r )
    {
        const bool ltk = r.pdu[ 0 ] == 0x06;
        ++n_keys_distributed;
        if ( !enc )
            res.violate( "C34", "key-on-unencrypted-link", std::string( "key-on-unencrypted-link " ) + ( ltk ? "ltk" : "ediv-rand" ), idx,
                         "%s distributed while the link is not encrypted: %s", ltk ? "Encryption Information" : "Central Identification", sim::hex( r.pdu ).c_str() );
        unsigned& sent = ltk ? enc_info_sent : central_id_sent;
        ++sent;
        if ( sent > completed_with_bond )
            res.violate( "C34", "key-without-completed-pairing", std::string( "key-without-completed-pairing " ) + ( ltk ? "ltk" : "ediv-rand" ), idx,
                         "%s #%u sent, but only %u pairings with key distribution completed on this connection (each item at most once per pairing, only after completion)",
                         ltk ? "Encryption Information" : "Central Identification", sent, completed_with_bond );
        if ( !ltk && central_id_sent > enc_info_sent )
            res.probe( "central_id_before_enc_info" );
        // content: the key of the bond created for this pairing
        if ( g_db.created.size() > bonds_created_at_connect || !g_db.created.empty() )
        {
            bool match = false;
            for ( const auto& k : g_db.created )
            {
                if ( ltk && r.pdu.size() == 17 && std::equal( k.longterm_key.begin(), k.longterm_key.end(), r.pdu.begin() + 1 ) ) match = true;
                if ( !ltk && r.pdu.size() == 11 && bluetoe::details::read_16bit( &r.pdu[ 1 ] ) == k.ediv && bluetoe::details::read_64bit( &r.pdu[ 3 ] ) == k.rand ) match = true;
            }
            if ( !match )
                res.violate( "C34", "key-content", std::string( "key-content " ) + ( ltk ? "ltk" : "ediv-rand" ), idx, "distributed %s does not belong to any bond that was created: %s",
                             ltk ? "long term key" : "EDIV/Rand", sim::hex( r.pdu ).c_str() );
        }
    }

    // ------------------------------------------------------------------ invariants after every op
    void check_keys_and_status()
    {
        // C35
        const device_pairing_status reported = conn.local_device_pairing_status();
        const device_pairing_status expected = st != m_completed ? device_pairing_status::no_key
            : authenticated ? device_pairing_status::authenticated_key : device_pairing_status::unauthenticated_key;
        if ( reported != expected )
        {
            std::string how = st != m_completed ? std::string( "no-pairing-completed " ) + mstate_name( st )
                : lesc ? std::string( "lesc " ) + ( nc ? ( user_confirmed ? "numeric-comparison-confirmed" : "numeric-comparison-not-confirmed" ) : "no-user-interaction" )
                       : std::string( "legacy tk=" ) + ( tk_source_used == tk_zero ? "zero" : tk_source_used == tk_oob ? "oob" : tk_source_used == tk_keyboard ? "keyboard" : "display" );
            res.violate( "C35", "pairing-status", "pairing-status reported=" + std::string( status_name( reported ) ) + " " + how + " " + ctx(), idx,
                         "local_device_pairing_status() reports %s, but the exchange that took place gives %s (%s; request io=%u oob=%u authreq=%02x; %s)",
                         status_name( reported ), status_name( expected ), how.c_str(), preq[ 1 ], preq[ 2 ], preq[ 3 ], cfg.name );
        }

        // C33
        struct probe { std::uint16_t ediv; std::uint64_t rand; };
        std::vector< probe > probes = { { 0, 0 }, { 0, 1 }, { 1, 0 }, { 0x1234, 0x1122334455667788ull } };
        if ( !g_db.created.empty() ) probes.push_back( { g_db.created.back().ediv, g_db.created.back().rand } );
        if ( g_db.created.size() > 1 ) probes.push_back( { g_db.created.front().ediv, g_db.created.front().rand } );
        for ( const auto& p : probes )
            check_find_key( p.ediv, p.rand );
    }

    std::pair< bool, uint128_t > check_find_key( std::uint16_t ediv, std::uint64_t rand )
    {
        const auto got = conn.find_key( ediv, rand );
        const bool local = ediv == 0 && rand == 0 && st == m_completed;
        std::pair< bool, uint128_t > db = std::pair< bool, uint128_t >{};
        if ( cfg.bonding ) db = g_db.find_key( ediv, rand, peer_addr() );
        if ( got.first )
        {
            if ( !local && !db.first )
                res.violate( "C33", "key-without-pairing", std::string( "key-without-pairing " ) + mstate_name( st ) + ( ediv == 0 && rand == 0 ? " ediv-rand-zero" : " ediv-rand-nonzero" ), idx,
                             "find_key( %u, %llu ) offers key %s, but no pairing completed on this connection (model state %s) and the bond data base has no entry for this EDIV/Rand and peer (%s)",
                             ediv, (unsigned long long)rand, sim::hex( got.second.data(), 16 ).c_str(), mstate_name( st ), ctx().c_str() );
            else if ( local && got.second != model_key )
                res.violate( "C33", "wrong-key", std::string( "wrong-key " ) + ( lesc ? "lesc" : "legacy" ), idx, "find_key( 0, 0 ) offers %s, the pairing produced %s (%s)",
                             sim::hex( got.second.data(), 16 ).c_str(), sim::hex( model_key.data(), 16 ).c_str(), lesc ? "LTK by f5" : "STK by s1" );
            else if ( !local && db.first && got.second != db.second )
                res.violate( "C33", "wrong-key", "wrong-key bond", idx, "find_key( %u, %llu ) offers %s, the bond data base holds %s", ediv, (unsigned long long)rand,
                             sim::hex( got.second.data(), 16 ).c_str(), sim::hex( db.second.data(), 16 ).c_str() );
        }
        else if ( local || db.first )
            res.probe( "key_expected_but_not_offered" );
        return got;
    }

    // ------------------------------------------------------------------ ops
    bytes with_len( bytes pdu, std::int64_t delta, const bytes& filler )
    {
        if ( delta < 0 ) { const std::size_t cut = std::min< std::size_t >( static_cast< std::size_t >( -delta ), pdu.size() ); pdu.resize( pdu.size() - cut ); }
        for ( std::int64_t i = 0; i < delta && pdu.size() < 80; ++i ) pdu.push_back( filler.empty() ? 0 : filler[ static_cast< std::size_t >( i ) % filler.size() ] );
        return pdu;
    }

    static u128 take16( const bytes& b, std::size_t off = 0 )
    {
        u128 r{};
        for ( std::size_t i = 0; i != 16; ++i ) r[ i ] = off + i < b.size() ? b[ off + i ] : static_cast< std::uint8_t >( 0x40 + i );
        return r;
    }

    u128 initiator_tk( int source )
    {
        u128 t{};
        switch ( ( ( source % tk_sources ) + tk_sources ) % tk_sources )
        {
        case tk_oob: return g_io.oob_data;
        case tk_keyboard: { const int k = g_io.passkey; t[ 0 ] = k & 0xff; t[ 1 ] = ( k >> 8 ) & 0xff; t[ 2 ] = ( k >> 16 ) & 0xff; t[ 3 ] = ( k >> 24 ) & 0xff; return t; }
        case tk_display_peek: {
            // the user reads the passkey from the display: predicted by letting the real generator run on a copy of the RNG state
            const hw_state saved = g_hw;
            const uint128_t k = sm.create_passkey();
            g_hw = saved;
            return k; }
        case tk_wrong: t[ 0 ] = 0x39; t[ 1 ] = 0x30; return t;
        default: return t;
        }
    }

    void run_op( const sim::Op& op )
    {
        const int kind = ( ( op.kind % op_count ) + op_count ) % op_count;
        switch ( kind )
        {
        case op_request: {
            bytes pdu = { 0x01, std::uint8_t( op.arg( 0 ) ), std::uint8_t( op.arg( 1 ) ), std::uint8_t( op.arg( 2 ) ), std::uint8_t( op.arg( 3 ) ), std::uint8_t( op.arg( 4 ) ), std::uint8_t( op.arg( 5 ) ) };
            input( with_len( pdu, op.arg( 6 ), op.bytes ), "pairing request" );
            break; }
        case op_confirm: {
            bytes pdu = { 0x03 };
            ini_mrand = take16( op.bytes ); ini_has_mrand = true;
            u128 c = take16( op.bytes, 16 );
            if ( op.arg( 0 ) == 0 )
            {
                ini_tk = initiator_tk( static_cast< int >( op.arg( 2 ) ) );
                c = ref::c1( ini_tk, ini_mrand, preq, pres, peer_addr(), g_local );
            }
            pdu.insert( pdu.end(), c.begin(), c.end() );
            input( with_len( pdu, op.arg( 1 ), op.bytes ), "pairing confirm" );
            break; }
        case op_random: {
            bytes pdu = { 0x04 };
            u128 r = take16( op.bytes );
            if ( op.arg( 0 ) == 0 && ini_has_mrand && ( st == m_leg_confirmed || st == m_leg_requested ) ) r = ini_mrand;
            pdu.insert( pdu.end(), r.begin(), r.end() );
            input( with_len( pdu, op.arg( 1 ), op.bytes ), "pairing random" );
            break; }
        case op_pubkey: {
            bytes pdu = { 0x0c };
            const int mode = static_cast< int >( ( ( op.arg( 0 ) % 4 ) + 4 ) % 4 );
            int key = -1;
            if ( mode == 0 )
            {
                key = static_cast< int >( ( ( op.arg( 2 ) % 3 ) + 3 ) % 3 );
                pdu.insert( pdu.end(), ref::pool_key( key ).pub.begin(), ref::pool_key( key ).pub.end() );
            }
            else if ( mode == 1 )
                for ( std::size_t i = 0; i != 64; ++i ) pdu.push_back( i < op.bytes.size() ? op.bytes[ i ] : std::uint8_t( i * 7 + 1 ) );
            else if ( mode == 2 )
            {
                // a valid x with a wrong y
                pdu.insert( pdu.end(), ref::pool_key( 0 ).pub.begin(), ref::pool_key( 0 ).pub.end() );
                pdu[ 40 ] ^= 0x01;
            }
            else
                pdu.insert( pdu.end(), 64, 0 );
            const int st_before = st;
            input( with_len( pdu, op.arg( 1 ), op.bytes ), "public key" );
            if ( st == m_lesc_keys && st_before == m_lesc_requested ) ini_key = key;
            break; }
        case op_dhkey: {
            bytes pdu = { 0x0d };
            u128 ea = take16( op.bytes );
            if ( op.arg( 0 ) == 0 && have_dh ) ea = expected_ea();
            else if ( op.arg( 0 ) == 0 && stale_ea_valid ) { ea = stale_ea; res.fault( "stale_dhkey_check_replayed" ); }
            pdu.insert( pdu.end(), ea.begin(), ea.end() );
            input( with_len( pdu, op.arg( 1 ), op.bytes ), "dhkey check" );
            break; }
        case op_failed: {
            bytes pdu = { 0x05, std::uint8_t( op.arg( 0 ) ) };
            input( pdu, "pairing failed" );
            break; }
        case op_raw:
            input( op.bytes, "raw" );
            break;
        case op_poll:
            poll();
            break;
        case op_user:
            if ( g_io.pending )
            {
                bluetoe::pairing_yes_no_response* p = g_io.pending;
                g_io.pending = nullptr;
                const bool yes = ( op.arg( 0 ) & 1 ) != 0;
                const bool stale = !( st == m_nc_wait || st == m_nc_wait_ea );
                res.note( "user answers %s%s", yes ? "yes" : "no", stale ? " (late: the question belongs to a pairing that is over)" : "" );
                if ( stale ) { ++n_stale_user; res.fault( "late_user_answer" ); fault_seen = true; }
                p->yes_no_response( yes );
                if ( !stale )
                {
                    user_confirmed = yes;
                    if ( yes ) st = st == m_nc_wait_ea ? m_nc_yes_ea : m_nc_yes;
                    else st = m_nc_no;
                }
            }
            else
                res.note( "user: nothing to answer" );
            break;
        case op_enc_req: {
            std::uint16_t ediv = 0; std::uint64_t rand = 0;
            const int k = static_cast< int >( ( ( op.arg( 0 ) % 4 ) + 4 ) % 4 );
            if ( k == 1 && !g_db.created.empty() ) { ediv = g_db.created.back().ediv; rand = g_db.created.back().rand; }
            else if ( k == 2 ) { ediv = static_cast< std::uint16_t >( op.arg( 1 ) ); rand = static_cast< std::uint64_t >( op.arg( 2 ) ); }
            else if ( k == 3 && !g_db.created.empty() ) { ediv = g_db.created.front().ediv; rand = g_db.created.front().rand; }
            const auto key = check_find_key( ediv, rand );
            res.note( "link layer: LL_ENC_REQ ediv=%u rand=%llu -> %s", ediv, (unsigned long long)rand, key.first ? "key" : "no key" );
            if ( key.first )
            {
                // what link_layer does when the encryption start procedure completes
                if ( conn.is_encrypted( true ) ) conn.restore_bonded_cccds( conn );
                conn.pairing_status( conn.local_device_pairing_status() );
                enc = true;
                res.fault( "encryption_started" );
            }
            break; }
        case op_enc_set: {
            const bool on = ( op.arg( 0 ) & 1 ) != 0;
            conn.is_encrypted( on );
            enc = on;
            res.note( "link layer: encryption %s", on ? "on" : "off" );
            res.fault( on ? "encryption_forced_on" : "encryption_off" );
            fault_seen = true;
            break; }
        case op_disconnect:
            peer = static_cast< unsigned >( ( ( op.arg( 0 ) % 3 ) + 3 ) % 3 );
            connect();
            res.fault( "disconnect_reconnect" );
            fault_seen = true;
            break;
        case op_draw:
            draw_passkeys( static_cast< unsigned >( std::max< std::int64_t >( 0, op.arg( 0 ) ) ) );
            break;
        }
    }

    void connect()
    {
        // what link_layer does for a new connection
        conn = typename SM::conn_t();
        conn.remote_connection_created( peer_addr() );
        ++g_io.epoch;
        enc = false;
        to_idle( false );
        completed_pairings = 0; completed_with_bond = 0; enc_info_sent = 0; central_id_sent = 0;
        bonds_created_at_connect = g_db.created.size();
        res.note( "connected to peer %u", peer );
    }

    void draw_passkeys( unsigned n )
    {
        res.note( "draw %u passkeys", n );
        static const std::uint32_t thresholds[] = { 48576, 65536, 483648, 777216, 967296, 500000, 100000 };
        constexpr unsigned buckets = 20;
        std::uint64_t bucket[ buckets ] = { 0 }, below[ 7 ] = { 0 };
        std::uint64_t in_range = 0;
        for ( unsigned i = 0; i != n; ++i )
        {
            const uint128_t k = sm.create_passkey();
            const std::uint32_t v = bluetoe::details::read_32bit( k.data() );
            ++n_passkeys;
            bool high_zero = true;
            for ( std::size_t j = 4; j != 16; ++j ) if ( k[ j ] ) high_zero = false;
            if ( v > 999999 || !high_zero )
            {
                res.violate( "C38", "passkey-range", "passkey-range create_passkey", idx, "create_passkey() returned %s = %u, not a value in 000000..999999", sim::hex( k.data(), 16 ).c_str(), v );
                return;
            }
            ++in_range;
            ++bucket[ v / ( 1000000 / buckets ) ];
            for ( unsigned t = 0; t != 7; ++t ) if ( v < thresholds[ t ] ) ++below[ t ];
        }
        if ( g_hw.mode != rng_uniform || n < 2000 ) return;
        res.probe( "uniformity_tested" );
        // coarse uniformity, 7 sigma (two sided 2.6e-12 per statistic)
        auto test = [&]( const char* what, std::uint64_t count, double p ) {
            const double mean = n * p, sigma = std::sqrt( n * p * ( 1 - p ) );
            if ( std::fabs( count - mean ) > 7 * sigma )
                res.violate( "C38", "passkey-uniformity", std::string( "passkey-uniformity" ), idx, "%u passkeys from a uniform RNG stream: %s holds %llu, expected %.0f +- %.0f (7 sigma = %.0f)", n, what,
                             (unsigned long long)count, mean, sigma, 7 * sigma );
        };
        for ( unsigned b = 0; b != buckets; ++b )
        {
            char name[ 64 ]; snprintf( name, sizeof name, "bucket [%u, %u)", b * 50000, ( b + 1 ) * 50000 );
            test( name, bucket[ b ], 1.0 / buckets );
        }
        for ( unsigned t = 0; t != 7; ++t )
        {
            char name[ 64 ]; snprintf( name, sizeof name, "range [0, %u)", thresholds[ t ] );
            test( name, below[ t ], thresholds[ t ] / 1000000.0 );
        }
    }

    void run()
    {
        connect();
        check_keys_and_status();
        for ( const auto& op : plan.ops )
        {
            ++idx;
            run_op( op );
            check_keys_and_status();
        }
        if ( n_completed ) res.probe( "pairing_completed", n_completed );
        if ( n_auth ) res.probe( "authenticated_pairing_completed", n_auth );
        if ( n_failed ) res.probe( "pairing_failed", n_failed );
        if ( n_mutated_rejected ) res.probe( "mid_pairing_step_rejected", n_mutated_rejected );
        if ( n_stale_user ) res.probe( "late_user_answer", n_stale_user );
        if ( n_keys_distributed ) res.probe( "key_distribution_pdu", n_keys_distributed );
        if ( n_passkeys ) res.probe( "passkeys_generated", n_passkeys );
        const std::string& p = plan.property;
        if ( p == "C32" )      res.nontrivial = n_completed + n_mutated_rejected > 0;
        else if ( p == "C33" ) res.nontrivial = n_completed > 0;
        else if ( p == "C34" ) res.nontrivial = n_keys_distributed > 0 || ( cfg.bonding && n_completed > 0 );
        else if ( p == "C35" ) res.nontrivial = n_completed > 0;
        else if ( p == "C38" ) res.nontrivial = n_passkeys > 0;
        else res.nontrivial = n_completed > 0;
        res.steps = plan.ops.size();
    }
};

template < class SM >
void run_world( const config_info& cfg, const sim::Plan& plan, sim::Result& res )
{
    std::unique_ptr< world< SM > > w( new world< SM >( cfg, plan, res ) );
    w->run();
}

// ===================================================================== harness
struct sm_harness : sim::Harness
{
    const char* name() const override { return "sm_sim"; }
    std::vector< std::string > properties() const override { return { "C32", "C33", "C34", "C35", "C38" }; }
    std::string nontrivial_rule( const std::string& p ) const override
    {
        std::string base = "seeded SMP histories (honest pairing flows of a reference initiator with dropped, repeated, swapped, malformed and wrong-valued steps, late user answers, link encryption "
                           "changes, key requests, disconnect/reconnect with a durable bond data base, output polls) against 16 security manager configurations (legacy/LESC/combined x IO capabilities x OOB x bonding) "
                           "with the real nRF52 tool box over emulated RNG/ECB; ";
        if ( p == "C32" ) return base + "non-trivial: a pairing completed or a step was rejected in the middle of a pairing; distinct = distinct trace hashes";
        if ( p == "C33" ) return base + "non-trivial: at least one pairing completed (so a key exists that must only be offered under the stated conditions); distinct = distinct trace hashes";
        if ( p == "C34" ) return base + "non-trivial: a key distribution PDU was emitted, or a pairing completed in a configuration with a bond data base; distinct = distinct trace hashes";
        if ( p == "C35" ) return base + "non-trivial: at least one pairing completed; distinct = distinct trace hashes";
        return base + "non-trivial: at least one passkey was generated (displayed during legacy passkey entry or drawn directly from create_passkey()); distinct = distinct trace hashes";
    }
    std::vector< std::string > real_components() const override
    {
        return { "bluetoe/sm/include/bluetoe/security_manager.hpp (legacy, lesc and combined impl)", "bluetoe/sm/include/bluetoe/security_connection_data.hpp", "bluetoe/sm/include/bluetoe/io_capabilities.hpp",
                 "bluetoe/sm/include/bluetoe/oob_authentication.hpp", "bluetoe/link_state.hpp", "bluetoe/bindings/nordic/nrf52/security_tool_box.cpp", "bluetoe/bindings/nordic/uECC/uECC.c" };
    }
    std::vector< std::string > stub_components() const override
    {
        return { "RNG and ECB peripherals (shim/nrf.h: seeded byte stream, AES-128 by OpenSSL)", "link layer (key requests, encryption switch, connection data reset)", "user I/O, OOB provider and bond data base objects",
                 "SMP initiator (reference model, OpenSSL)" };
    }
    std::uint64_t default_runs( const std::string& p, bool thorough ) const override
    {
        if ( p == "C38" ) return thorough ? 200000 : 12000;
        return thorough ? 2000000 : 100000;
    }
    std::vector< std::string > op_names() const override
    {
        return { "request", "confirm", "random", "pubkey", "dhkey", "failed", "raw", "poll", "user", "enc_req", "enc_set", "disconnect", "draw" };
    }

    static bytes rnd_bytes( sim::Rng& rng, std::size_t n ) { bytes b( n ); for ( auto& x : b ) x = rng.byte(); return b; }

    sim::Plan generate( std::uint64_t seed, const std::string& property, bool thorough ) const override
    {
        sim::Rng rng( seed );
        sim::Plan p;
        p.harness = name(); p.property = property; p.seed = seed;

        // --- configuration, biased by property
        if ( property == "C34" && rng.chance( 70 ) ) { static const int c[] = { 5, 6, 7, 14, 15 }; p.config = c[ rng.below( 5 ) ]; }
        else if ( property == "C38" && rng.chance( 60 ) ) { static const int c[] = { 1, 3, 5, 7 }; p.config = c[ rng.below( 4 ) ]; }
        else p.config = static_cast< int >( rng.below( n_configs ) );
        const config_info& cfg = configs[ p.config ];

        p.knobs[ "rng_seed" ]   = static_cast< std::int64_t >( rng.next() >> 1 );
        p.knobs[ "rng_mode" ]   = rng.chance( 70 ) ? rng_uniform : static_cast< std::int64_t >( rng.below( rng_modes ) );
        p.knobs[ "user_mode" ]  = static_cast< std::int64_t >( rng.below( 3 ) );
        p.knobs[ "passkey" ]    = rng.chance( 10 ) ? 999999 : rng.range( 1, 999999 );
        p.knobs[ "oob_mask" ]   = static_cast< std::int64_t >( rng.below( 8 ) );
        p.knobs[ "oob_seed" ]   = static_cast< std::int64_t >( rng.below( 1000 ) );
        p.knobs[ "addr_types" ] = static_cast< std::int64_t >( rng.below( 16 ) );      // bit 0..2 peers random, bit 3 local random
        p.knobs[ "db_seed" ]    = static_cast< std::int64_t >( rng.below( 100000 ) );
        p.knobs[ "db_mode" ]    = rng.chance( 85 ) ? 0 : static_cast< std::int64_t >( rng.range( 1, 2 ) );
        const bool user_deferred_mode = p.knobs[ "user_mode" ] == user_deferred;

        if ( property == "C38" && rng.chance( 50 ) )
        {
            p.knobs[ "rng_mode" ] = rng.chance( 60 ) ? rng_uniform : static_cast< std::int64_t >( rng.below( rng_modes ) );
            const std::int64_t n = rng.chance( 30 ) ? ( thorough ? 200000 : 60000 ) : rng.range( 1, 3000 );
            p.ops.push_back( sim::Op( op_draw, { n } ) );
            if ( rng.chance( 50 ) ) return p;
        }

        const unsigned attempts = static_cast< unsigned >( rng.range( 1, thorough ? 4 : 3 ) );
        const unsigned noise_pm = rng.chance( 40 ) ? 0 : static_cast< unsigned >( rng.range( 20, 250 ) );   // per mille per gap
        const unsigned mutate_pc = rng.chance( 35 ) ? 0 : static_cast< unsigned >( rng.range( 5, 40 ) );

        auto noise = [&]() {
            switch ( rng.below( 9 ) )
            {
            case 0: case 1: p.ops.push_back( sim::Op( op_poll, {} ) ); break;
            case 2: p.ops.push_back( sim::Op( op_user, { static_cast< std::int64_t >( rng.below( 2 ) ) } ) ); break;
            case 3: p.ops.push_back( sim::Op( op_enc_req, { static_cast< std::int64_t >( rng.below( 4 ) ), static_cast< std::int64_t >( rng.below( 3 ) ), static_cast< std::int64_t >( rng.below( 3 ) ) } ) ); break;
            case 4: p.ops.push_back( sim::Op( op_enc_set, { static_cast< std::int64_t >( rng.below( 2 ) ) } ) ); break;
            case 5: p.ops.push_back( sim::Op( op_disconnect, { static_cast< std::int64_t >( rng.below( 3 ) ) } ) ); break;
            case 6: {
                bytes b = rnd_bytes( rng, static_cast< std::size_t >( rng.range( 0, rng.chance( 80 ) ? 18 : 70 ) ) );
                if ( !b.empty() && rng.chance( 70 ) ) b[ 0 ] = static_cast< std::uint8_t >( rng.range( 0, 0x10 ) );
                p.ops.push_back( sim::Op( op_raw, {}, b ) );
                break; }
            case 7: p.ops.push_back( sim::Op( op_failed, { static_cast< std::int64_t >( rng.below( 16 ) ) } ) ); break;
            case 8: p.ops.push_back( sim::Op( op_draw, { rng.range( 1, 20 ) } ) ); break;
            }
        };

        // --- the family "the user still owes an answer": a numeric comparison is left open, the exchange is aborted in one of several ways,
        // a new one is started, and then the late answer and steps the new exchange has not reached yet arrive in some order
        if ( cfg.variant != 0 && cfg.yes_no && rng.chance( 12 ) )
        {
            p.knobs[ "user_mode" ] = user_deferred;
            const std::int64_t io = rng.chance( 50 ) ? 1 : 4, authreq = 0x08 | ( rng.chance( 50 ) ? 0x01 : 0 ) | ( rng.chance( 50 ) ? 0x04 : 0 );
            const sim::Op request( op_request, { io, 0, authreq, 16, static_cast< std::int64_t >( rng.below( 16 ) ), static_cast< std::int64_t >( rng.below( 16 ) ), 0 }, rnd_bytes( rng, 4 ) );
            const sim::Op pubkey( op_pubkey, { 0, 0, static_cast< std::int64_t >( rng.below( 3 ) ) }, rnd_bytes( rng, 64 ) );
            p.ops.push_back( request );
            p.ops.push_back( pubkey );
            p.ops.push_back( sim::Op( op_poll, {} ) );
            p.ops.push_back( sim::Op( op_random, { 0, 0 }, rnd_bytes( rng, 16 ) ) );
            if ( rng.chance( 30 ) ) p.ops.push_back( sim::Op( op_dhkey, { 0, 0 }, rnd_bytes( rng, 16 ) ) );
            switch ( rng.below( 5 ) )
            {
            case 0: p.ops.push_back( sim::Op( op_confirm, { 0, 0, 0 }, rnd_bytes( rng, 32 ) ) ); break;     // out of order
            case 1: p.ops.push_back( sim::Op( op_failed, { static_cast< std::int64_t >( rng.below( 16 ) ) } ) ); break;
            case 2: p.ops.push_back( pubkey ); break;
            case 3: p.ops.push_back( sim::Op( op_disconnect, { static_cast< std::int64_t >( rng.below( 3 ) ) } ) ); break;
            default: break;     // the new request itself ends the old exchange
            }
            p.ops.push_back( request );
            std::vector< sim::Op > rest{ sim::Op( op_user, { rng.chance( 80 ) ? 1 : 0 } ), sim::Op( op_dhkey, { 0, 0 }, rnd_bytes( rng, 16 ) ) };
            if ( rng.chance( 40 ) ) rest.push_back( pubkey );
            if ( rng.chance( 30 ) ) rest.push_back( sim::Op( op_random, { 0, 0 }, rnd_bytes( rng, 16 ) ) );
            if ( rng.chance( 30 ) ) rest.push_back( sim::Op( op_poll, {} ) );
            for ( std::size_t k = rest.size(); k > 1; --k ) std::swap( rest[ k - 1 ], rest[ rng.below( k ) ] );
            for ( const auto& o : rest ) p.ops.push_back( o );
            p.ops.push_back( sim::Op( op_poll, {} ) );
            p.ops.push_back( sim::Op( op_enc_req, { 0, 0, 0 } ) );
        }

        for ( unsigned a = 0; a != attempts; ++a )
        {
            // --- one pairing attempt as an honest script
            std::vector< sim::Op > script;
            const bool want_lesc = cfg.variant == 1 ? rng.chance( 92 ) : cfg.variant == 2 ? rng.chance( 60 ) : rng.chance( 8 );
            std::int64_t io = rng.chance( 90 ) ? static_cast< std::int64_t >( rng.below( 5 ) ) : rng.range( 5, 255 );
            std::int64_t oob = rng.chance( cfg.oob ? 50 : 12 ) ? 1 : ( rng.chance( 3 ) ? rng.range( 2, 255 ) : 0 );
            std::int64_t authreq = ( want_lesc ? 0x08 : 0 ) | ( rng.chance( 50 ) ? 0x01 : 0 ) | ( rng.chance( 40 ) ? 0x04 : 0 ) | ( rng.chance( 10 ) ? 0x10 : 0 ) | ( rng.chance( 4 ) ? 0x40 : 0 );
            std::int64_t keysize = rng.chance( 88 ) ? 16 : rng.range( 0, 20 );
            std::int64_t ikd = rng.chance( 92 ) ? static_cast< std::int64_t >( rng.below( 16 ) ) : rng.range( 16, 255 );
            std::int64_t rkd = rng.chance( 92 ) ? static_cast< std::int64_t >( rng.below( 16 ) ) : rng.range( 16, 255 );
            std::int64_t len = rng.chance( 94 ) ? 0 : rng.range( -7, 4 );
            script.push_back( sim::Op( op_request, { io, oob, authreq, keysize, ikd, rkd, len }, rnd_bytes( rng, 4 ) ) );

            if ( !want_lesc || cfg.variant == 0 )
            {
                // TK source the initiator believes in: biased towards what the configuration will most likely use
                std::int64_t src = tk_zero;
                if ( cfg.oob && oob == 1 && rng.chance( 80 ) ) src = tk_oob;
                else if ( cfg.keyboard && io != 3 && rng.chance( 75 ) ) src = ( cfg.display && io != 2 ) ? ( rng.chance( 50 ) ? tk_keyboard : tk_display_peek ) : tk_keyboard;
                else if ( cfg.display && ( io == 2 || io == 4 ) && rng.chance( 80 ) ) src = tk_display_peek;
                if ( cfg.keyboard && cfg.display && io == 2 ) src = rng.chance( 80 ) ? tk_display_peek : src;
                if ( rng.chance( 8 ) ) src = static_cast< std::int64_t >( rng.below( tk_sources ) );
                script.push_back( sim::Op( op_confirm, { rng.chance( 93 ) ? 0 : 1, rng.chance( 95 ) ? 0 : rng.range( -17, 3 ), src }, rnd_bytes( rng, 32 ) ) );
                script.push_back( sim::Op( op_random, { rng.chance( 93 ) ? 0 : 1, rng.chance( 95 ) ? 0 : rng.range( -17, 3 ) }, rnd_bytes( rng, 16 ) ) );
            }
            else
            {
                script.push_back( sim::Op( op_pubkey, { rng.chance( 90 ) ? 0 : static_cast< std::int64_t >( rng.range( 1, 3 ) ), rng.chance( 95 ) ? 0 : rng.range( -65, 3 ), static_cast< std::int64_t >( rng.below( 3 ) ) }, rnd_bytes( rng, 64 ) ) );
                script.push_back( sim::Op( op_poll, {} ) );
                script.push_back( sim::Op( op_random, { 0, rng.chance( 95 ) ? 0 : rng.range( -17, 3 ) }, rnd_bytes( rng, 16 ) ) );
                // user answer and DHKey check in either order
                const bool user_first = rng.chance( 50 );
                const sim::Op user( op_user, { rng.chance( 75 ) ? 1 : 0 } );
                const sim::Op dhkey( op_dhkey, { rng.chance( 90 ) ? 0 : 1, rng.chance( 95 ) ? 0 : rng.range( -17, 3 ) }, rnd_bytes( rng, 16 ) );
                if ( cfg.yes_no && user_deferred_mode && user_first && rng.chance( 85 ) )
                {
                    script.push_back( user );
                    // the link layer asks for output at every connection event: also between the user's answer and the central's DHKey check
                    if ( rng.chance( 60 ) ) script.push_back( sim::Op( op_poll, {} ) );
                }
                script.push_back( dhkey );
                if ( cfg.yes_no && user_deferred_mode && !user_first && rng.chance( 85 ) ) script.push_back( user );
                script.push_back( sim::Op( op_poll, {} ) );
            }

            // --- mutations of the script: drop, duplicate, swap
            if ( mutate_pc && rng.chance( mutate_pc ) && script.size() > 1 )
            {
                const std::size_t i = rng.below( script.size() );
                switch ( rng.below( 4 ) )
                {
                case 0: script.erase( script.begin() + static_cast< long >( i ) ); break;
                case 1: script.insert( script.begin() + static_cast< long >( i ), script[ i ] ); break;
                case 2: if ( i + 1 < script.size() ) std::swap( script[ i ], script[ i + 1 ] ); break;
                default: {
                    // jump ahead: several steps in a row are left out (the initiator goes on with what it has from an earlier attempt);
                    // a user who still owes the answer to an earlier question may give it now
                    const std::size_t from = 1 + rng.below( script.size() - 1 ), to = from + 1 + rng.below( script.size() - from );
                    script.erase( script.begin() + static_cast< long >( from ), script.begin() + static_cast< long >( std::min( to, script.size() ) ) );
                    if ( rng.chance( 60 ) ) script.insert( script.begin() + static_cast< long >( std::min< std::size_t >( from, script.size() ) ), sim::Op( op_user, { rng.chance( 75 ) ? 1 : 0 } ) );
                    break; }
                }
            }
            for ( const auto& op : script )
            {
                if ( noise_pm && rng.permille( noise_pm ) ) noise();
                p.ops.push_back( op );
            }

            // --- afterwards: the link layer asks for the key, polls for key distribution, may drop encryption or the connection
            const unsigned tail = static_cast< unsigned >( rng.range( 0, 6 ) );
            for ( unsigned t = 0; t != tail; ++t )
            {
                switch ( rng.below( 8 ) )
                {
                case 0: case 1: p.ops.push_back( sim::Op( op_enc_req, { 0, 0, 0 } ) ); break;
                case 2: case 3: case 4: p.ops.push_back( sim::Op( op_poll, {} ) ); break;
                case 5: p.ops.push_back( sim::Op( op_enc_req, { static_cast< std::int64_t >( rng.range( 1, 3 ) ), static_cast< std::int64_t >( rng.below( 3 ) ), static_cast< std::int64_t >( rng.below( 3 ) ) } ) ); break;
                case 6: p.ops.push_back( sim::Op( op_enc_set, { 0 } ) ); break;
                default: noise(); break;
                }
            }
            if ( rng.chance( 30 ) ) p.ops.push_back( sim::Op( op_disconnect, { static_cast< std::int64_t >( rng.below( 3 ) ) } ) );
        }
        return p;
    }

    void execute( const sim::Plan& plan, sim::Result& res ) const override
    {
        const int c = ( ( plan.config % n_configs ) + n_configs ) % n_configs;
        const config_info& cfg = configs[ c ];
        res.note( "config %d %s", c, cfg.name );

        // --- simulator owned state
        nrf_shim::install();
        nrf_shim::rng_source = &hw_rng_byte;
        nrf_shim::ecb_engine = &hw_ecb;
        g_hw = hw_state();
        g_hw.rng  = sim::Rng( static_cast< std::uint64_t >( plan.knob( "rng_seed", 1 ) ) );
        g_hw.mode = static_cast< int >( ( ( plan.knob( "rng_mode" ) % rng_modes ) + rng_modes ) % rng_modes );

        g_io = io_stub();
        g_io.user_mode = static_cast< int >( ( ( plan.knob( "user_mode" ) % 3 ) + 3 ) % 3 );
        g_io.passkey   = static_cast< int >( ( ( plan.knob( "passkey", 123456 ) % 1000000 ) + 1000000 ) % 1000000 );
        g_io.oob_mask  = static_cast< unsigned >( plan.knob( "oob_mask" ) ) & 7u;
        {
            sim::Rng r( static_cast< std::uint64_t >( plan.knob( "oob_seed" ) ) + 99 );
            for ( auto& b : g_io.oob_data ) b = r.byte();
            g_io.oob_data[ 5 ] |= 0x80;   // never a value a passkey could take
        }
        const unsigned types = static_cast< unsigned >( plan.knob( "addr_types" ) );
        static const std::uint8_t pa[ 3 ][ 6 ] = { { 0xa1, 0xa2, 0xa3, 0xa4, 0xa5, 0xa6 }, { 0xa1, 0xa2, 0xa3, 0xa4, 0xa5, 0xc6 }, { 0x01, 0x00, 0x00, 0x00, 0x00, 0xc0 } };
        static const std::uint8_t la[ 6 ] = { 0xb1, 0xb2, 0xb3, 0xb4, 0xb5, 0xc6 };
        for ( unsigned i = 0; i != 3; ++i ) g_io.peers[ i ] = device_address( pa[ i ], ( types >> i ) & 1 );
        g_local = device_address( la, ( types >> 3 ) & 1 );

        g_db = bond_db_stub();
        g_db.rng = sim::Rng( static_cast< std::uint64_t >( plan.knob( "db_seed" ) ) + 1234 );
        g_db.ediv_rand_mode = static_cast< int >( ( ( plan.knob( "db_mode" ) % 3 ) + 3 ) % 3 );

        using L = bluetoe::legacy_security_manager;
        using S = bluetoe::lesc_security_manager;
        using C = bluetoe::security_manager;
        switch ( c )
        {
        case 0:  run_world< sm_inst< L > >( cfg, plan, res ); break;
        case 1:  run_world< sm_inst< L, opt_display > >( cfg, plan, res ); break;
        case 2:  run_world< sm_inst< L, opt_keyboard > >( cfg, plan, res ); break;
        case 3:  run_world< sm_inst< L, opt_keyboard, opt_display > >( cfg, plan, res ); break;
        case 4:  run_world< sm_inst< L, opt_oob > >( cfg, plan, res ); break;
        case 5:  run_world< sm_inst< L, opt_display, opt_bonding > >( cfg, plan, res ); break;
        case 6:  run_world< sm_inst< L, opt_bonding > >( cfg, plan, res ); break;
        case 7:  run_world< sm_inst< L, opt_display, opt_yes_no, opt_oob, opt_bonding > >( cfg, plan, res ); break;
        case 8:  run_world< sm_inst< S > >( cfg, plan, res ); break;
        case 9:  run_world< sm_inst< S, opt_display, opt_yes_no > >( cfg, plan, res ); break;
        case 10: run_world< sm_inst< S, opt_display, opt_yes_no, opt_bonding > >( cfg, plan, res ); break;
        case 11: run_world< sm_inst< S, opt_display > >( cfg, plan, res ); break;
        case 12: run_world< sm_inst< C > >( cfg, plan, res ); break;
        case 13: run_world< sm_inst< C, opt_display, opt_yes_no > >( cfg, plan, res ); break;
        case 14: run_world< sm_inst< C, opt_display, opt_yes_no, opt_oob, opt_bonding > >( cfg, plan, res ); break;
        case 15: run_world< sm_inst< C, opt_display, opt_bonding > >( cfg, plan, res ); break;
        }
        res.sim_time_us = 0;
    }

    std::vector< sim::Op > simplify( const sim::Plan& plan, std::size_t i ) const override
    {
        std::vector< sim::Op > r;
        const sim::Op& op = plan.ops[ i ];
        const int kind = ( ( op.kind % op_count ) + op_count ) % op_count;
        // modes and length deltas towards the honest form
        for ( std::size_t a = 0; a != op.a.size(); ++a )
        {
            if ( kind == op_request && a < 6 ) continue;
            if ( op.a[ a ] != 0 ) { sim::Op c = op; c.a[ a ] = 0; r.push_back( c ); }
        }
        if ( kind == op_request )
        {
            static const std::int64_t plain[ 6 ] = { 3, 0, 0, 16, 0, 0 };
            for ( std::size_t a = 0; a != 6 && a < op.a.size(); ++a )
                if ( op.a[ a ] != plain[ a ] && !( a == 2 && ( op.a[ a ] & ~0x08 ) == 0 ) )
                {
                    sim::Op c = op;
                    c.a[ a ] = a == 2 ? ( op.a[ a ] & 0x08 ) : plain[ a ];
                    r.push_back( c );
                }
        }
        if ( kind == op_draw && op.arg( 0 ) > 1 ) { sim::Op c = op; c.a[ 0 ] = op.arg( 0 ) / 2; r.push_back( c ); }
        return r;
    }
};

}

int main( int argc, char** argv )
{
    sm_harness h;
    return sim::sim_main( argc, argv, h );
}
