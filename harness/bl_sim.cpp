// bl_sim - the bootloader service: only white listed memory is touched, data lands where the client said (C39)
//
// Parties: the client (control point and data writes of any opcode, length and address, as requests and as commands; subscriptions;
// confirmations), the flash hardware (a page that was handed over with start_flash() is finished some steps later, up to two are
// outstanding), the link (polls for notifications / indications, possibly late).
//
// Real code: bluetoe::bootloader_service<> (controller, flash_buffer, white_list), bluetoe::server<> with its write / notification
// / indication paths.  Stubs: the user handler of the bootloader (simulated memory that records every access), the link layer.
#include <iterator>
#include <array>
#include <algorithm>
#include <cstring>
#include <memory>
#include <map>
#include <functional>
#include <tuple>

#include <bluetoe/server.hpp>
#include <bluetoe/services/bootloader.hpp>

#include "../sim/sim.hpp"

namespace {

using bytes = std::vector< std::uint8_t >;

// ---- the simulated device memory with the regions the application white listed
struct region { std::uintptr_t start, end; };

struct flash_world
{
    std::vector< region >               regions;
    std::uintptr_t                      base = 0, top = 0;      // simulated memory [base, top) includes a margin around the regions
    bytes                               mem;
    sim::Result*                        res = nullptr;
    long*                               idx = nullptr;
    std::function< void() >             cp_notify, data_indicate;
    struct flash_req { std::uintptr_t addr; bytes data; };
    std::vector< flash_req >            flashes;                // every start_flash() call, in order
    unsigned                            flashes_outstanding = 0;
    unsigned                            accesses = 0, run_calls = 0, reset_calls = 0;
    bool                                deny_public_read = false;

    bool inside( std::uintptr_t a, std::size_t n ) const
    {
        for ( const auto& r : regions ) if ( a >= r.start && a + n <= r.end && a + n >= a ) return true;
        return false;
    }

    void access( const char* what, std::uintptr_t a, std::size_t n )
    {
        ++accesses;
        if ( n == 0 || inside( a, n ) ) return;
        // which side of which region?
        std::string how = "outside-every-region";
        for ( const auto& r : regions )
        {
            if ( a < r.start && a + n > r.start && a + n <= r.end ) how = "begins-before-region";
            else if ( a >= r.start && a < r.end && a + n > r.end ) how = "ends-behind-region";
            else if ( a < r.start && a + n > r.end ) how = "covers-region";
        }
        res->violate( "C39", "access-outside-white-list", std::string( "access-outside-white-list " ) + what + " " + how, *idx, "%s( 0x%llx, %zu ) is not entirely inside a white listed region (%s)", what,
                      (unsigned long long)a, n, how.c_str() );
    }

    std::uint8_t peek( std::uintptr_t a ) const { return a >= base && a < top ? mem[ a - base ] : 0xee; }
    void poke( std::uintptr_t a, std::uint8_t v ) { if ( a >= base && a < top ) mem[ a - base ] = v; }
} g_flash;

std::uint32_t crc_step( std::uint32_t crc, std::uint8_t b ) { return crc * 31u + b + 7u; }

struct bl_handler
{
    std::pair< const std::uint8_t*, std::size_t > get_version()
    {
        static const std::uint8_t version[] = { 'v', 'e', 'r', 'i', 'f' };
        return { version, sizeof version };
    }
    void read_mem( std::uintptr_t address, std::size_t size, std::uint8_t* destination )
    {
        g_flash.access( "read_mem", address, size );
        for ( std::size_t i = 0; i != size; ++i ) destination[ i ] = g_flash.peek( address + i );
    }
    std::uint32_t checksum32( std::uintptr_t start_addr, std::size_t size )
    {
        g_flash.access( "checksum32", start_addr, size );
        std::uint32_t crc = 0;
        for ( std::size_t i = 0; i != size; ++i ) crc = crc_step( crc, g_flash.peek( start_addr + i ) );
        return crc;
    }
    std::uint32_t checksum32( const std::uint8_t* start_addr, std::size_t size, std::uint32_t crc )
    {
        for ( std::size_t i = 0; i != size; ++i ) crc = crc_step( crc, start_addr[ i ] );
        return crc;
    }
    std::uint32_t checksum32( std::uintptr_t start_addr )
    {
        std::uint32_t crc = 0x1234;
        for ( int i = 0; i != 8; ++i ) crc = crc_step( crc, static_cast< std::uint8_t >( start_addr >> ( 8 * i ) ) );
        return crc;
    }
    bluetoe::bootloader::error_codes public_read_mem( std::uintptr_t address, std::size_t size, std::uint8_t* destination )
    {
        g_flash.access( "public_read_mem", address, size );
        if ( g_flash.deny_public_read ) return bluetoe::bootloader::error_codes::not_authorized;
        for ( std::size_t i = 0; i != size; ++i ) destination[ i ] = g_flash.peek( address + i );
        return bluetoe::bootloader::error_codes::success;
    }
    std::uint32_t public_checksum32( std::uintptr_t start_addr, std::size_t size )
    {
        g_flash.access( "public_checksum32", start_addr, size );
        std::uint32_t crc = 0;
        for ( std::size_t i = 0; i != size; ++i ) crc = crc_step( crc, g_flash.peek( start_addr + i ) );
        return crc;
    }
    bluetoe::bootloader::error_codes start_flash( std::uintptr_t address, const std::uint8_t* values, std::size_t size )
    {
        g_flash.access( "start_flash", address, size );
        g_flash.flashes.push_back( flash_world::flash_req{ address, bytes( values, values + size ) } );
        ++g_flash.flashes_outstanding;
        return bluetoe::bootloader::error_codes::success;
    }
    bluetoe::bootloader::error_codes run( std::uintptr_t ) { ++g_flash.run_calls; return bluetoe::bootloader::error_codes::success; }
    bluetoe::bootloader::error_codes reset() { ++g_flash.reset_calls; return bluetoe::bootloader::error_codes::success; }
    void control_point_notification_call_back() { if ( g_flash.cp_notify ) g_flash.cp_notify(); }
    void data_indication_call_back() { if ( g_flash.data_indicate ) g_flash.data_indicate(); }
};

// ---- configurations: page size, regions (aligned to the page or not), ATT MTU
constexpr std::uintptr_t A = 0x20000;

template < std::size_t Page, std::uintptr_t S1, std::uintptr_t E1, std::uintptr_t S2, std::uintptr_t E2, std::size_t Mtu >
using bl_server = bluetoe::server<
    bluetoe::bootloader_service<
        bluetoe::bootloader::page_size< Page >,
        bluetoe::bootloader::handler< bl_handler >,
        bluetoe::bootloader::white_list<
            bluetoe::bootloader::memory_region< S1, E1 >,
            bluetoe::bootloader::memory_region< S2, E2 > > >,
    bluetoe::max_mtu_size< Mtu > >;

using server0 = bl_server< 16,  A,        A + 64,        A + 0x1000, A + 0x1000 + 32,  23 >;     // small pages, aligned regions
using server1 = bl_server< 64,  A,        A + 256,       A + 0x1000, A + 0x1000 + 128, 65 >;     // larger MTU: a write can span pages
using server2 = bl_server< 256, A,        A + 512,       A + 0x1000, A + 0x1000 + 256, 23 >;
using server3 = bl_server< 16,  A + 8,    A + 8 + 40,    A + 0x1000, A + 0x1000 + 24,  23 >;     // regions that do not start / end on page boundaries

enum { op_subscribe, op_control, op_data, op_poll, op_confirm, op_flash_done, op_mtu, op_count };

template < class Server, std::size_t Page >
struct world
{
    using connection_t = typename Server::template channel_data_t< bluetoe::details::link_state >;

    Server                          server;
    std::unique_ptr< connection_t > conn;
    sim::Result&                    res;
    long                            idx = -1;
    unsigned                        cp = 0, cp_cccd = 0, data = 0, data_cccd = 0, progress = 0, progress_cccd = 0;
    unsigned                        mtu = 23;
    bool                            indication_outstanding = false;

    // ---- model of a flash session
    bool                            session = false, desync = true;
    std::uintptr_t                  next_addr = 0;                  // where the next data byte belongs
    std::map< std::uintptr_t, std::uint8_t > client_bytes;          // bytes the client sent in this session that are not flashed yet
    std::uint32_t                   chain = 0;                      // checksum chain over all data of the session
    std::size_t                     flashes_checked = 0;
    unsigned                        pages_flashed = 0, data_writes = 0, control_writes = 0, rejected = 0;
    bool                            restarted_with_flash_outstanding = false;
    unsigned                        completions_unreported = 0;
    std::map< std::uintptr_t, std::uint32_t > chain_at;             // checksum chain after the last byte of the page that ends at this address

    explicit world( sim::Result& r ) : res( r )
    {
        server.notification_callback( &world::notification_cb, this );
        conn.reset( new connection_t );
        g_flash.cp_notify     = [ this ]{ server.bootloader_control_point_notification( server ); };
        g_flash.data_indicate = [ this ]{ server.bootloader_data_indication( server ); };
        g_flash.res = &res; g_flash.idx = &idx;
        discover();
    }

    static bool notification_cb( const bluetoe::details::notification_data& item, void* that, bluetoe::details::notification_type type )
    {
        world& w = *static_cast< world* >( that );
        switch ( type )
        {
        case bluetoe::details::notification_type::notification: return w.conn->queue_notification( item.client_characteristic_configuration_index() );
        case bluetoe::details::notification_type::indication:   return w.conn->queue_indication( item.client_characteristic_configuration_index() );
        default: w.conn->indication_confirmed(); return true;
        }
    }

    bytes request( const bytes& in )
    {
        // exactly sized input: a read behind the written value is an ASan report
        std::unique_ptr< std::uint8_t[] > ib( new std::uint8_t[ in.size() ] );
        std::copy( in.begin(), in.end(), ib.get() );
        std::unique_ptr< std::uint8_t[] > ob( new std::uint8_t[ mtu ] );
        std::size_t out_size = mtu;
        server.l2cap_input( ib.get(), in.size(), ob.get(), out_size, *conn );
        check_flashes();
        return bytes( ob.get(), ob.get() + std::min< std::size_t >( out_size, mtu ) );
    }

    bytes poll()
    {
        std::unique_ptr< std::uint8_t[] > ob( new std::uint8_t[ mtu ] );
        std::size_t out_size = mtu;
        server.l2cap_output( ob.get(), out_size, *conn );
        check_flashes();
        return bytes( ob.get(), ob.get() + std::min< std::size_t >( out_size, mtu ) );
    }

    void discover()
    {
        // three characteristics with 128 bit UUIDs ending in A9, AA, AB (little endian: first byte)
        unsigned start = 1;
        for ( int guard = 0; guard != 20; ++guard )
        {
            const bytes rsp = request( bytes{ 0x08, std::uint8_t( start ), std::uint8_t( start >> 8 ), 0xff, 0xff, 0x03, 0x28 } );
            if ( rsp.size() < 2 || rsp[ 0 ] != 0x09 ) break;
            const unsigned len = rsp[ 1 ];
            for ( std::size_t i = 2; i + len <= rsp.size() && len >= 7; i += len )
            {
                const unsigned decl = rsp[ i ] | ( rsp[ i + 1 ] << 8 ), value = rsp[ i + 3 ] | ( rsp[ i + 4 ] << 8 );
                if ( len == 21 )
                {
                    const std::uint8_t low = rsp[ i + 5 ];
                    if ( low == 0xA9 ) { cp = value; cp_cccd = value + 1; }
                    if ( low == 0xAA ) { data = value; data_cccd = value + 1; }
                    if ( low == 0xAB ) { progress = value; progress_cccd = value + 1; }
                }
                start = decl + 1;
            }
        }
        res.note( "control point %u, data %u, progress %u", cp, data, progress );
    }

    // ---- every page the bootloader hands to the flash hardware
    void check_flashes()
    {
        for ( ; flashes_checked < g_flash.flashes.size(); ++flashes_checked )
        {
            const auto& f = g_flash.flashes[ flashes_checked ];
            ++pages_flashed;
            res.note( "  start_flash( 0x%llx, %zu bytes )", (unsigned long long)f.addr, f.data.size() );
            if ( f.data.size() != Page || f.addr % Page != 0 )
                res.violate( "C39", "flash-page", "flash-page", idx, "start_flash( 0x%llx, %zu ): not one whole page of %zu bytes", (unsigned long long)f.addr, f.data.size(), Page );
            if ( !desync )
            {
                for ( std::size_t i = 0; i != f.data.size(); ++i )
                {
                    const std::uintptr_t a = f.addr + i;
                    const auto c = client_bytes.find( a );
                    const std::uint8_t want = c != client_bytes.end() ? c->second : g_flash.peek( a );
                    if ( f.data[ i ] != want )
                    {
                        res.violate( "C39", "flash-content", c != client_bytes.end() ? "flash-content client-data" : "flash-content read-back", idx,
                                     "page 0x%llx is flashed with 0x%02x at offset %zu, %s 0x%02x", (unsigned long long)f.addr, f.data[ i ], i, c != client_bytes.end() ? "the client sent" : "the memory holds", want );
                        break;
                    }
                }
            }
            for ( std::size_t i = 0; i != f.data.size(); ++i ) { g_flash.poke( f.addr + i, f.data[ i ] ); client_bytes.erase( f.addr + i ); }
        }
    }

    void subscribe_all()
    {
        request( bytes{ 0x12, std::uint8_t( cp_cccd ), 0, 1, 0 } );
        request( bytes{ 0x12, std::uint8_t( data_cccd ), 0, 2, 0 } );
        request( bytes{ 0x12, std::uint8_t( progress_cccd ), 0, 1, 0 } );
    }

    static void put_addr( bytes& b, std::uintptr_t a ) { for ( unsigned i = 0; i != sizeof( std::uint8_t* ); ++i ) b.push_back( static_cast< std::uint8_t >( a >> ( 8 * i ) ) ); }

    std::uintptr_t pick_address( std::int64_t sel, std::int64_t off ) const
    {
        // addresses inside, at the borders of, straddling and outside the regions
        const auto& r = g_flash.regions[ static_cast< std::size_t >( ( ( sel / 8 ) % 2 + 2 ) % 2 ) ];
        switch ( ( ( sel % 8 ) + 8 ) % 8 )
        {
        case 0: return r.start;
        case 1: return r.start + static_cast< std::uintptr_t >( ( ( off % 64 ) + 64 ) % 64 ) % ( r.end - r.start );
        case 2: return r.end - 1 - static_cast< std::uintptr_t >( ( ( off % 8 ) + 8 ) % 8 );
        case 3: return r.end;
        case 4: return r.start - 1 - static_cast< std::uintptr_t >( ( ( off % 8 ) + 8 ) % 8 );
        case 5: return r.end + static_cast< std::uintptr_t >( ( ( off % 40 ) + 40 ) % 40 );
        case 6: return r.start + ( r.end - r.start ) / Page * Page - static_cast< std::uintptr_t >( ( ( off % 4 ) + 4 ) % 4 );    // around the last page boundary
        default: return static_cast< std::uintptr_t >( off ) * 0x1111;
        }
    }

    void control( const sim::Op& op )
    {
        // a0 opcode, a1 address selector, a2 offset, a3 second address selector, a4 length delta, a5 as command
        const int opcode = static_cast< int >( op.arg( 0 ) & 0xff );
        bytes v{ static_cast< std::uint8_t >( opcode ) };
        const std::uintptr_t a1 = pick_address( op.arg( 1 ), op.arg( 2 ) );
        std::uintptr_t a2 = pick_address( op.arg( 3 ), op.arg( 2 ) + 5 );
        if ( opcode == 1 || opcode == 8 ) { if ( a2 < a1 && ( op.arg( 2 ) & 3 ) ) a2 = a1 + static_cast< std::uintptr_t >( op.arg( 2 ) & 0x3f ); put_addr( v, a1 ); put_addr( v, a2 ); }
        else if ( opcode == 3 || opcode == 6 ) put_addr( v, a1 );
        const std::int64_t d = op.arg( 4 );
        if ( d < 0 ) v.resize( v.size() - std::min< std::size_t >( v.size(), static_cast< std::size_t >( -d ) ) );
        for ( std::int64_t k = 0; k < d && v.size() < mtu - 3; ++k ) v.push_back( static_cast< std::uint8_t >( 0x30 + k ) );
        if ( v.size() > mtu - 3 ) v.resize( mtu - 3 );
        const bool command = ( op.arg( 5 ) & 1 ) != 0;
        bytes req{ static_cast< std::uint8_t >( command ? 0x52 : 0x12 ), std::uint8_t( cp ), std::uint8_t( cp >> 8 ) };
        req.insert( req.end(), v.begin(), v.end() );
        res.note_bytes( command ? "control point (command)" : "control point", v.data(), v.size() );
        ++control_writes;
        const bytes rsp = request( req );
        if ( !rsp.empty() ) res.note_bytes( "  <-", rsp.data(), rsp.size() );
        const bool well_formed_start = opcode == 3 && v.size() == 1 + sizeof( std::uint8_t* );
        const bool accepted = command ? true : ( rsp.size() == 1 && rsp[ 0 ] == 0x13 );
        if ( !command && !accepted ) ++rejected;
        // ---- model: any control point write ends the session, a well formed Start Flash that is accepted begins one
        if ( opcode == 5 && accepted ) { /* flush: the session goes on; the page that is flushed ends its part of the chain here */ chain_at[ next_addr ] = chain; }
        else
        {
            session = false; desync = true; client_bytes.clear();
            if ( well_formed_start && ( command ? g_flash.inside( a1, 0 ) || true : accepted ) )
            {
                if ( command ) { desync = true; }        // without a response the model cannot tell whether the session began
                else
                {
                    // a page of the previous procedure that is still being flashed (or whose completion is not reported yet) will be reported to this procedure
                    restarted_with_flash_outstanding = g_flash.flashes_outstanding != 0 || completions_unreported != 0;
                    session = true; desync = false; next_addr = a1; chain = bl_handler().checksum32( a1 ); chain_at.clear(); res.probe( "flash_sessions" );
                }
            }
        }
    }

    void write_data( const sim::Op& op )
    {
        bytes v = op.bytes;
        if ( v.size() > mtu - 3 ) v.resize( mtu - 3 );
        const bool command = ( op.arg( 0 ) & 1 ) != 0;
        bytes req{ static_cast< std::uint8_t >( command ? 0x52 : 0x12 ), std::uint8_t( data ), std::uint8_t( data >> 8 ) };
        req.insert( req.end(), v.begin(), v.end() );
        res.note( "data %zu bytes%s", v.size(), command ? " (command)" : "" );
        ++data_writes;
        // the model places the bytes before the request is handled: a page may be flashed while it is handled
        const bool tracked = session && !desync;
        std::map< std::uintptr_t, std::uint8_t > before = client_bytes;
        if ( tracked ) for ( std::size_t i = 0; i != v.size(); ++i ) client_bytes[ next_addr + i ] = v[ i ];
        const bytes rsp = request( req );
        const bool ok = command ? true : ( rsp.size() == 1 && rsp[ 0 ] == 0x13 );
        if ( !rsp.empty() && !ok ) res.note_bytes( "  <-", rsp.data(), rsp.size() );
        if ( tracked )
        {
            if ( ok && !command ) { for ( std::uint8_t b : v ) { chain = crc_step( chain, b ); ++next_addr; if ( next_addr % Page == 0 ) chain_at[ next_addr ] = chain; } }
            else { desync = true; client_bytes.clear(); ++rejected; }      // refused, partly taken, or unknown: the client has to start over
        }
    }

    void handle_output( const bytes& pdu )
    {
        if ( pdu.empty() ) return;
        res.note_bytes( "  poll <-", pdu.data(), pdu.size() );
        if ( pdu.size() > mtu ) res.violate( "C39", "output-size", "output-size", idx, "server PDU of %zu bytes with MTU %u", pdu.size(), mtu );
        if ( pdu[ 0 ] == 0x1d ) indication_outstanding = true;
        if ( ( pdu[ 0 ] == 0x1b ) && pdu.size() == 3 + 7 && ( pdu[ 1 ] | ( pdu[ 2 ] << 8 ) ) == static_cast< int >( progress ) )
        {
            // progress: crc of everything up to the end of the page, consecutive number, MTU
            const std::uint32_t crc = pdu[ 3 ] | ( pdu[ 4 ] << 8 ) | ( pdu[ 5 ] << 16 ) | ( std::uint32_t( pdu[ 6 ] ) << 24 );
            res.probe( "progress_notifications" );
            completions_unreported = 0;
            if ( !desync && session && !chain_at.empty() )
            {
                bool found = false;
                for ( const auto& c : chain_at ) if ( c.second == crc ) found = true;
                if ( !found && crc != chain )
                    res.violate( "C39", "checksum-chain", restarted_with_flash_outstanding ? "checksum-chain restarted-with-flash-outstanding" : "checksum-chain", idx, "progress notification announces checksum 0x%08x, which is not the chain over the data sent up to any page boundary (or up to now: 0x%08x)", crc, chain );
            }
        }
    }

    void run( const sim::Plan& plan )
    {
        if ( !cp || !data || !progress ) { res.violate( "C39", "discovery", "discovery", -1, "bootloader characteristics not found" ); return; }
        for ( const auto& op : plan.ops )
        {
            ++idx;
            switch ( ( ( op.kind % op_count ) + op_count ) % op_count )
            {
            case op_subscribe:
                if ( op.arg( 0 ) == 0 ) subscribe_all();
                else request( bytes{ 0x12, std::uint8_t( op.arg( 0 ) == 1 ? cp_cccd : op.arg( 0 ) == 2 ? data_cccd : progress_cccd ), 0, std::uint8_t( op.arg( 1 ) & 3 ), 0 } );
                break;
            case op_control: control( op ); break;
            case op_data: write_data( op ); break;
            case op_poll: handle_output( poll() ); break;
            case op_confirm: if ( indication_outstanding ) { request( bytes{ 0x1e } ); indication_outstanding = false; } break;
            case op_flash_done:
                if ( g_flash.flashes_outstanding ) { --g_flash.flashes_outstanding; ++completions_unreported; res.note( "flash hardware: page done" ); res.fault( "flash_completed_late" ); bluetoe::bootloader::end_flash( server ); check_flashes(); }
                break;
            case op_mtu: {
                const bytes rsp = request( bytes{ 0x02, std::uint8_t( op.arg( 0 ) ), 0 } );
                if ( rsp.size() == 3 && rsp[ 0 ] == 0x03 ) mtu = std::max< unsigned >( 23, std::min< unsigned >( static_cast< unsigned >( op.arg( 0 ) & 0xff ), rsp[ 1 ] | ( rsp[ 2 ] << 8 ) ) );
                break; }
            }
        }
        if ( pages_flashed ) res.probe( "pages_flashed", pages_flashed );
        if ( rejected ) res.probe( "writes_rejected", rejected );
        res.probe( "handler_memory_accesses", g_flash.accesses );
        res.nontrivial = control_writes >= 2 && ( pages_flashed >= 1 || g_flash.accesses >= 3 );
        res.steps = plan.ops.size();
    }
};

template < class Server, std::size_t Page >
void run_world( const sim::Plan& plan, sim::Result& res, std::vector< region > regions )
{
    g_flash = flash_world();
    g_flash.regions = regions;
    g_flash.base = A - 0x400; g_flash.top = A + 0x1800;
    g_flash.mem.resize( g_flash.top - g_flash.base );
    for ( std::size_t i = 0; i != g_flash.mem.size(); ++i ) g_flash.mem[ i ] = static_cast< std::uint8_t >( 0x80 | ( i * 7 ) );
    g_flash.deny_public_read = plan.knob( "deny_public_read" ) != 0;
    std::unique_ptr< world< Server, Page > > w( new world< Server, Page >( res ) );
    w->run( plan );
    g_flash.cp_notify = nullptr; g_flash.data_indicate = nullptr;
}

struct bl_harness : sim::Harness
{
    const char* name() const override { return "bl_sim"; }
    std::vector< std::string > properties() const override { return { "C39" }; }
    std::string nontrivial_rule( const std::string& ) const override
    {
        return "seeded sequences of control point writes (opcodes 0..8 and unknown ones, lengths from 1 byte to the MTU, addresses inside, at the borders of, straddling and outside the white listed regions, as requests and "
               "commands), data writes of 0..MTU-3 bytes, subscriptions, MTU exchange, late polls and page completions that come any number of steps later, for 4 configurations (page 16/64/256, aligned and unaligned regions); "
               "non-trivial: at least two control point writes and (a page was flashed or the handler touched memory three times); distinct = distinct trace hashes";
    }
    std::vector< std::string > real_components() const override { return { "bluetoe/services/bootloader.hpp (controller, flash_buffer, white_list)", "bluetoe/server.hpp", "bluetoe/characteristic_value.hpp (control point handlers)" }; }
    std::vector< std::string > stub_components() const override { return { "bootloader user handler: simulated memory, flash hardware that finishes pages later, checksum functions", "link layer" }; }
    bool memory_safety_property( const std::string& ) const override { return true; }
    std::uint64_t default_runs( const std::string&, bool thorough ) const override { return thorough ? 3000000 : 100000; }
    std::vector< std::string > op_names() const override { return { "subscribe", "control", "data", "poll", "confirm", "flash_done", "mtu" }; }

    sim::Plan generate( std::uint64_t seed, const std::string& property, bool thorough ) const override
    {
        sim::Rng rng( seed );
        sim::Plan p;
        p.harness = name(); p.property = property; p.seed = seed;
        p.config = static_cast< int >( rng.below( 4 ) );
        p.knobs[ "deny_public_read" ] = rng.chance( 15 ) ? 1 : 0;
        const unsigned n = static_cast< unsigned >( rng.range( 3, thorough ? 80 : 40 ) );
        p.ops.push_back( sim::Op( op_subscribe, { rng.chance( 90 ) ? 0 : rng.range( 1, 3 ), rng.range( 0, 3 ) } ) );
        if ( p.config == 1 && rng.chance( 70 ) ) p.ops.push_back( sim::Op( op_mtu, { rng.chance( 70 ) ? 65 : rng.range( 23, 80 ) } ) );
        for ( unsigned i = 0; i != n; ++i )
        {
            const unsigned x = static_cast< unsigned >( rng.below( 100 ) );
            if ( x < 28 )
            {
                static const int opcodes[] = { 3, 3, 3, 3, 1, 1, 8, 8, 5, 5, 4, 0, 2, 6, 7, 9, 0xff };
                const std::int64_t opcode = rng.chance( 92 ) ? opcodes[ rng.below( sizeof opcodes / sizeof opcodes[ 0 ] ) ] : rng.range( 0, 255 );
                // mostly sensible addresses for flashing, everything for the rest
                const std::int64_t sel = opcode == 3 && rng.chance( 70 ) ? ( rng.chance( 50 ) ? 0 : 1 ) + 8 * rng.range( 0, 1 ) : rng.range( 0, 15 );
                p.ops.push_back( sim::Op( op_control, { opcode, sel, rng.range( 0, 255 ), rng.range( 0, 15 ), rng.chance( 80 ) ? 0 : rng.range( -17, 6 ), rng.chance( 85 ) ? 0 : 1 } ) );
            }
            else if ( x < 64 )
            {
                sim::Op o( op_data, { rng.chance( 85 ) ? 0 : 1 } );
                const std::size_t len = static_cast< std::size_t >( rng.chance( 60 ) ? 20 : rng.range( 0, rng.chance( 80 ) ? 20 : 62 ) );
                for ( std::size_t k = 0; k != len; ++k ) o.bytes.push_back( static_cast< std::uint8_t >( rng.range( 1, 0x7f ) ) );
                p.ops.push_back( o );
            }
            else if ( x < 78 ) p.ops.push_back( sim::Op( op_poll, {} ) );
            else if ( x < 84 ) p.ops.push_back( sim::Op( op_confirm, {} ) );
            else if ( x < 97 ) p.ops.push_back( sim::Op( op_flash_done, {} ) );
            else p.ops.push_back( sim::Op( op_subscribe, { rng.range( 1, 3 ), rng.range( 0, 3 ) } ) );
        }
        return p;
    }

    void execute( const sim::Plan& plan, sim::Result& res ) const override
    {
        const int c = ( ( plan.config % 4 ) + 4 ) % 4;
        res.note( "config %d", c );
        switch ( c )
        {
        case 0: run_world< server0, 16 >( plan, res, { { A, A + 64 }, { A + 0x1000, A + 0x1000 + 32 } } ); break;
        case 1: run_world< server1, 64 >( plan, res, { { A, A + 256 }, { A + 0x1000, A + 0x1000 + 128 } } ); break;
        case 2: run_world< server2, 256 >( plan, res, { { A, A + 512 }, { A + 0x1000, A + 0x1000 + 256 } } ); break;
        default: run_world< server3, 16 >( plan, res, { { A + 8, A + 8 + 40 }, { A + 0x1000, A + 0x1000 + 24 } } ); break;
        }
    }

    std::vector< sim::Op > simplify( const sim::Plan& plan, std::size_t i ) const override
    {
        std::vector< sim::Op > r;
        const sim::Op& op = plan.ops[ i ];
        if ( op.kind == op_data && op.bytes.size() > 1 ) { sim::Op c = op; c.bytes.resize( op.bytes.size() / 2 ); r.push_back( c ); }
        if ( op.kind == op_control ) for ( std::size_t a : { std::size_t( 4 ), std::size_t( 5 ), std::size_t( 2 ) } ) if ( op.arg( a ) != 0 ) { sim::Op c = op; c.a[ a ] = 0; r.push_back( c ); }
        return r;
    }
};

}

int main( int argc, char** argv )
{
    bl_harness h;
    return sim::sim_main( argc, argv, h );
}
