// stack_world - the whole peripheral (link_layer + everything beneath and above it) against a simulated central, scanners,
// initiators, application and air (stack_sim; C20-C25, C27, C29).
//
// Real code: bluetoe::link_layer::link_layer<...> with advertiser, connection state machine, peripheral latency, channel map,
// delta_time, L2CAP, ll_l2cap_sdu_buffer, ll_data_pdu_buffer, ring buffers, connection_callbacks + ring, white list, GATT server.
// Stub: the radio (harness/sim_radio.hpp: the scheduled_radio contract implemented on the simulated world), the central
// (written from the Core specification, not from Bluetoe), scanners/initiators, the application, the air, both clocks.
#ifndef VERIF_STACK_WORLD_HPP
#define VERIF_STACK_WORLD_HPP

#include "sim_radio.hpp"
#include <bluetoe/connection_details.hpp>
#include "../sim/sim.hpp"

#include <deque>
#include <set>
#include <string>
#include <vector>

namespace stack {

using bytes = std::vector< std::uint8_t >;

enum { op_run, op_scan_req, op_connect, op_air_fault, op_central_control, op_central_update, op_central_l2cap, op_app, op_central_terminate, op_central_enc, op_count };

// what the world needs to know about / do with the concrete link layer
struct ll_access
{
    std::function< void() >             run;
    std::function< unsigned() >         event_counter, channel_index;
    std::function< bool() >             tx_allocatable;     // a transmit buffer for a PDU of maximum size can be had right now
    std::function< bool( int kind, std::int64_t a, std::int64_t b ) > app;        // application calls, returns the call's result
    bluetoe::link_layer::device_address own_address;
    // static facts about the configuration
    unsigned    latency_features = 0;       // bit per bluetoe::link_layer::peripheral_latency value
    unsigned    own_sca_ppm = 500;
    unsigned    adv_interval_ms = 100;
    bool        variable_adv_map = false, no_auto_start = false, has_white_list = false;
    unsigned    white_list_size = 0;
    int         adv_type = 0;               // PDU type code of the (first) advertising type
    unsigned    rx_buffer = 61, tx_buffer = 61;
    // link encryption (C28): a characteristic value that requires encryption, and the bonds the application's data base holds
    bool        has_encryption = false;
    const std::uint8_t* secret = nullptr;
    std::size_t secret_size = 0;
    unsigned    secret_handle = 0;
    struct bond { std::uint16_t ediv; std::uint64_t rand; std::array< std::uint8_t, 16 > key; };
    std::vector< bond > bonds;
};

// callbacks of connection_callbacks<> as the application sees them
struct callback_recorder
{
    std::string log;        // one letter per callback: R requested, E established, T attempt timeout, C changed, X closed, v version, j rejected, u unknown, f features, p phy
    std::vector< int > closed_reasons;
    template < class C > void ll_connection_requested( const bluetoe::link_layer::connection_details&, const bluetoe::link_layer::connection_addresses&, C& ) { log += 'R'; }
    template < class C > void ll_connection_established( const bluetoe::link_layer::connection_details&, const bluetoe::link_layer::connection_addresses&, C& ) { log += 'E'; }
    template < class C > void ll_connection_attempt_timeout( C& ) { log += 'T'; }
    std::vector< bool > changed_encrypted;      // is_encrypted as reported with every ll_connection_changed
    template < class C > void ll_connection_changed( const bluetoe::link_layer::connection_details&, C& c ) { log += 'C'; changed_encrypted.push_back( c.security_attributes().is_encrypted ); }
    template < class C > void ll_connection_closed( std::uint8_t reason, C& ) { log += 'X'; closed_reasons.push_back( reason ); }
    template < class C > void ll_version( std::uint8_t, std::uint16_t, std::uint16_t, C& ) { log += 'v'; }
    template < class C > void ll_rejected( std::uint8_t, C& ) { log += 'j'; }
    template < class C > void ll_unknown( std::uint8_t, C& ) { log += 'u'; }
    template < class C > void ll_remote_features( std::uint8_t*, C& ) { log += 'f'; }
    template < class C > void ll_phy_updated( bluetoe::link_layer::phy_ll_encoding::phy_ll_encoding_t, bluetoe::link_layer::phy_ll_encoding::phy_ll_encoding_t, C& ) { log += 'p'; }
};

inline std::uint16_t rd16( const std::uint8_t* p ) { return static_cast< std::uint16_t >( p[ 0 ] | ( p[ 1 ] << 8 ) ); }
inline void put16( bytes& b, unsigned v ) { b.push_back( static_cast< std::uint8_t >( v ) ); b.push_back( static_cast< std::uint8_t >( v >> 8 ) ); }

struct ll_pdu { std::uint8_t llid = 1; bytes payload; int tag = 0; bool delivered = false; int enc = -1; /* -1: as the central's encryption state says, 0 / 1: forced */ };

// ------------------------------------------------------------------------------------------------ central (reference, from the specification)
struct central_model
{
    bool            connected = false;
    // parameters in force
    std::uint32_t   interval_us = 0;
    std::uint16_t   latency = 0;
    std::uint32_t   timeout_us = 0;
    std::uint8_t    chm[ 5 ] = { 0 };
    unsigned        hop = 5;
    unsigned        phy = 1;
    unsigned        sca_ppm = 50;
    // schedule (true time in ns)
    std::int64_t    anchor_ns = 0;          // of event `abs_counter`
    std::uint64_t   abs_counter = 0;
    std::uint64_t   counter_base = 0;       // value of the event counter at the first event of the connection (0 by the specification; the run may say otherwise)
    std::int64_t    last_heard_ns = 0;
    std::int64_t    created_ns = 0;
    bool            heard_once = false;
    double          drift = 0;              // the central's clock error, |drift| <= sca_ppm
    // pending updates
    struct update { bool active = false; std::uint64_t instant = 0; int kind = 0; std::uint32_t win_size_us = 0, win_offset_us = 0, interval_us = 0; std::uint16_t latency = 0; std::uint32_t timeout_us = 0;
                    std::uint8_t chm[ 5 ] = { 0 }; unsigned phy = 1; bool acked = false; int tag = 0; bool legal = true; std::int64_t jitter_ns = 0; } upd;
    bool            sync_excused = false;   // the central did something that excuses the peripheral from staying in sync
    bool            timing_unconfirmed = false;     // the central applied new connection timing and the peripheral did not yet meet an anchor with it
    // ARQ
    bool            sn = false, nesn = false;
    std::deque< ll_pdu > txq;
    bool            has_inflight = false;
    ll_pdu          inflight;
    std::vector< ll_pdu > received;         // new non-empty PDUs from the peripheral
    unsigned        md_burst = 1;           // packets per event the central is willing to exchange
    // link encryption
    bool            tx_enc = false, rx_enc = false, has_key = false;
    std::array< std::uint8_t, 16 > key{};
    int             enc_proc = 0;           // 0 idle, 1 LL_ENC_REQ sent, 2 LL_ENC_RSP seen, 3 LL_START_ENC_REQ seen (LL_START_ENC_RSP sent), 10 LL_PAUSE_ENC_REQ sent

    unsigned csa1( std::uint64_t counter, const std::uint8_t* map ) const
    {
        const unsigned unmapped = static_cast< unsigned >( ( static_cast< std::uint64_t >( hop ) * ( counter - counter_base + 1 ) ) % 37 );
        if ( map[ unmapped / 8 ] & ( 1 << ( unmapped % 8 ) ) ) return unmapped;
        unsigned used[ 37 ], n = 0;
        for ( unsigned c = 0; c != 37; ++c ) if ( map[ c / 8 ] & ( 1 << ( c % 8 ) ) ) used[ n++ ] = c;
        return used[ unmapped % n ];
    }
};

// ------------------------------------------------------------------------------------------------ the world
class world
{
public:
    world( ll_access& ll, radio_state& radio, callback_recorder& rec, sim::Result& res )
        : ll_( ll ), r_( radio ), rec_( rec ), res_( res )
    {
        r_.world_activity = [ this ]( radio_state& ) { activity(); };
        adv_map_ = 7;
        adv_enabled_ = !ll_.no_auto_start;
    }

    void run( const sim::Plan& plan );

    // statistics for the non-triviality rule
    unsigned adv_pdus = 0, connection_events = 0, connections = 0, faults_fired = 0, latency_skips = 0, instants_applied = 0, control_answered = 0;

private:
    ll_access&          ll_;
    radio_state&        r_;
    callback_recorder&  rec_;
    sim::Result&        res_;
    central_model       c_;
    long                idx_ = 0;
    bool                stop_ = false;

    // clocks: true time in ns; the peripheral's local clock runs at (1 + p_drift_)
    double              p_drift_ = 0;
    std::int64_t        local_origin_us_ = 0;
    std::int64_t to_true_ns( std::int64_t local_us ) const { return static_cast< std::int64_t >( static_cast< long double >( local_us ) * 1000.0L / ( 1.0L + static_cast< long double >( p_drift_ ) ) ); }
    std::int64_t to_local_us( std::int64_t true_ns ) const { return static_cast< std::int64_t >( static_cast< long double >( true_ns ) * ( 1.0L + static_cast< long double >( p_drift_ ) ) / 1000.0L ); }

    // advertising model
    unsigned            adv_map_ = 7;               // model of the enabled advertising channels (bit 0 = 37)
    unsigned            adv_map_at_schedule_ = 7;
    std::uint64_t       adv_seq_seen_ = ~0ull;
    bool                adv_enabled_at_schedule_ = true;
    bool                map_op_pending_ = false;
    bool                adv_enabled_ = true;
    int                 adv_count_left_ = -1;       // start_advertising( count )
    unsigned            idle_while_enabled_ = 0;
    std::vector< unsigned > event_channels_;        // channels used in the current advertising event
    unsigned            event_map_ = 7;
    bool                event_map_changed_ = false;
    std::int64_t        last_event_start_us_ = -1;
    std::set< unsigned > white_list_;
    bool                wl_conn_filter_ = false, wl_scan_filter_ = false;
    std::uint64_t       event_counter_base_ = 0;
    // armed devices
    struct armed { bool active = false; sim::Op op; } scanner_, initiator_;
    // connection model
    bool                p_connected_ = false;       // the link layer scheduled connection events
    bool                established_ = false;
    std::uint64_t       last_attended_abs_ = 0;
    std::uint64_t       last_listened_abs_ = 0, seen_too_late_events_ = 0;
    std::uint16_t       latency_at_last_listen_ = 0;
    bool                listened_once_ = false;
    bool                must_listen_next_ = true;
    std::uint64_t       listen_reason_event_ = 0;
    int                 air_fault_kind_ = 0, air_fault_left_ = 0;
    std::int64_t        last_valid_rx_local_us_ = 0;
    std::int64_t        connect_end_local_us_ = 0;
    bool                local_disconnect_requested_ = false;
    int                 expected_close_reason_ = -1;
    std::size_t         cb_checked_ = 0;
    unsigned            open_connections_in_log_ = 0;
    // C27: expectations for control PDUs the central sent
    struct expect_rsp { std::uint8_t opcode; std::size_t len; bytes payload; bool none; std::vector< int > allowed; int tag; };
    std::deque< expect_rsp > expected_rsp_;       // at most one element: the request in progress (LL procedures are serialised by a real central)
    std::deque< std::pair< ll_pdu, expect_rsp > > waiting_controls_;
    bool                current_acked_ = false;
    bool                control_checks_excused_ = false;      // a missed instant stalls the peripheral's data processing (C21): C27 cannot be judged any more
    int                 late_update_kind_ = -1;
    int                 upd_pdu_tag_ = 0, upd_kind_ = 0;
    std::uint64_t       upd_instant_ = 0;
    std::uint64_t       late_update_deadline_ = 0;
    unsigned            quiet_events_ = 0;
    void release_next_control();
    bool                version_sent_by_central_ = false;
    bool                version_seen_from_peripheral_ = false;
    std::int64_t        app_procedure_started_local_us_ = -1;
    bool                proc_watch_ = false;        // a peripheral initiated procedure is open and the central has sent nothing that could end it
    std::int64_t        proc_watch_since_local_us_ = 0, last_proc_ending_pdu_local_us_ = -1, conn_update_applied_local_us_ = -1, last_app_procedure_call_local_us_ = -1;
    // the request of a peripheral initiated procedure reached the central, which will not answer it. Not watched when a PDU that may end the
    // procedure reached the peripheral after the application asked for it (the link layer may have seen it after queueing the request)
    void arm_procedure_watch()
    {
        if ( last_proc_ending_pdu_local_us_ >= 0 && last_app_procedure_call_local_us_ >= 0 && last_proc_ending_pdu_local_us_ >= last_app_procedure_call_local_us_ ) return;
        proc_watch_ = true; proc_watch_since_local_us_ = r_.now_us;
        // (the instant of a connection update between the application's call and now: see the known finding about the one response timer)
        proc_watch_conn_update_ = conn_update_applied_local_us_ >= 0 && last_app_procedure_call_local_us_ >= 0 && conn_update_applied_local_us_ >= last_app_procedure_call_local_us_;
    }
    bool                proc_ending_pdu_waits_for_instant_ = false;
    bool                proc_watch_conn_update_ = false;    // ... but the instant of a connection update (delivered before the procedure started) was reached
    bool                app_version_req_ = false;
    unsigned            app_param_req_ = 0, app_phy_req_ = 0;      // successful requests of the application not yet seen on the air (each gives at most one PDU)
    int                 next_tag_ = 1;

    void relax_version_expectations()
    {
        // one LL_VERSION_IND per side and connection: once the peripheral sent (or is about to send) its own, the central's gets no answer
        for ( auto& e : expected_rsp_ ) if ( e.opcode == 0x0c && e.len == 6 && !e.none ) e.none = true;
        for ( auto& w : waiting_controls_ ) if ( w.second.opcode == 0x0c && w.second.len == 6 && !w.second.none ) w.second.none = true;
    }
    template < class ... Args >
    void violate( const char* property, const char* rule, const std::string& key, const char* fmt, Args ... args )
    {
        // the radio contract makes a radio without a free receive buffer ignore everything, acknowledgements included: with the transmit ring
        // occupied as well nothing ever moves again. What is observed in that state is named after the state.
        // A received control PDU is only looked at when a transmit buffer of maximum size can be had, whether it needs an answer or not:
        // an instant based PDU that waits behind an occupied (or unallocatable, see C15) transmit ring can miss its instant.
        const bool tx_starved = ( std::string( property ) == "C21" || ( std::string( property ) == "C20" && key.find( "at-map-instant" ) != std::string::npos ) ) && tx_starved_since_update_;
        // the deadlock: for several events nothing could be received, and no transmit buffer can be had to work the receive ring off
        const bool rx_deadlock = rx_full_streak_ >= 6 || ( rx_full_streak_ >= 2 && ll_.tx_allocatable && !ll_.tx_allocatable() );
        res_.violate( property, rule, rx_deadlock ? "receive-ring-full-acks-ignored " + key : tx_starved ? "transmit-buffer-unavailable " + key : key, idx_, fmt, args... );
    }
    unsigned            rx_full_streak_ = 0;
    std::deque< expect_rsp > lapsed_optional_;      // optional answers the central stopped waiting for
    bool                tx_starved_since_update_ = false;   // since the last instant based PDU was delivered, an event ended without a free transmit buffer
    bool                last_evt_unacked_ = false;      // the peripheral's last transmitted PDU carried data nothing acknowledged yet
    // C28: link encryption
    bool                model_enc_ = false;             // an encryption start procedure with a supplied key completed, no pause since
    bool                model_enc_seen_ = false;        // ... at some point since the callbacks were looked at the last time
    // LL_ENC_REQs (key known?) that were delivered; those the link layer has looked at (it answered with LL_ENC_RSP) and that wait for their common
    // verdict: the link layer answers all requests it handled in one go with one LL_START_ENC_REQ or one reject (a hostile central may pipeline requests)
    std::deque< bool >  enc_delivered_, enc_batch_;
    bool enc_known_pending() const
    {
        return std::find( enc_delivered_.begin(), enc_delivered_.end(), true ) != enc_delivered_.end() || std::find( enc_batch_.begin(), enc_batch_.end(), true ) != enc_batch_.end();
    }
    bool enc_only_unknown_pending() const { return ( !enc_delivered_.empty() || !enc_batch_.empty() ) && !enc_known_pending(); }
    bool                last_reported_enc_ = false;
    bool                start_enc_req_seen_ = false;
    bool                tx_session_legit_ = false;      // the peripheral's transmit encryption was started by such a procedure
    bool                enc_started_this_event_ = false;
    bool                rx_session_legit_ = false, prev_rx_enc_ = false;
    unsigned            enc_legit_starts_ = 0, enc_reported_ = 0;
    bool                start_committed_ = false;
    unsigned            prev_rx_enc_starts_ = 0;
    std::deque< bool >  att_req_while_enc_;             // for every ATT PDU that was delivered and is not answered yet: did it arrive over the encrypted link?
    bool                att_rsp_seen_ = false, att_rsp_sn_ = false;
    int                 reject_due_in_ = -1;            // undisturbed events left until the reject of an unknown key is due
    unsigned            legit_secret_writes_ = 0;
    unsigned            write_seq_ = 0;
    std::size_t         changed_checked_ = 0;
    bytes               secret_snapshot_;
    void enc_op( const sim::Op& op );
    bool enc_handle_control( const ll_pdu& p );
    void enc_pdu_delivered( const ll_pdu& p, bool pdu_enc );
    void enc_check_outgoing( const bytes& rsp );
    void enc_after_event( bool undisturbed );
public:
    unsigned            enc_completed = 0, enc_rejected = 0;
private:
    std::set< int >     remote_terminate_reasons_;      // reasons of the LL_TERMINATE_IND PDUs the central sent on this connection: the peripheral reports them as its closing reason
    bool                map_update_sent_ = false;       // a channel map update was sent on this connection
    std::int64_t        timeout_before_update_us_ = 0, update_applied_local_us_ = -1;
    int                 directed_target_ = -1;          // device the application named last as target of directed advertising
    bool                raw_instant_pdu_sent_ = false;  // on this connection the central sent an instant based PDU with arbitrary content
    unsigned            updates_on_connection_ = 0;
    bool                instant_passed_justified_ = false;  // an instant based PDU reached the peripheral at or after its instant (or one event before, for new timing)

    void activity();
    void advertising_activity();
    void connection_event_activity();
    void after_callbacks( const char* where );
    void snapshot_adv_schedule();
    void close_adv_event();
    bytes make_scan_request( const sim::Op& op, const bytes& adv ) const;
    bytes make_connect_request( const sim::Op& op, const bytes& adv, bool& valid, bool& either, central_model& nc ) const;
    void central_unanswered_event();
    void central_advance_event();
    void central_process( const bytes& rsp, bool& more_from_peripheral );
    void central_handle_control( const ll_pdu& p );
    void queue_central_control( std::uint8_t opcode, const bytes& params, bool raw_len_hack = false, int forced_len = -1 );
    void do_app( const sim::Op& op );
    static std::uint32_t pdu_duration_us( std::size_t payload ) { return static_cast< std::uint32_t >( ( 1 + 4 + 2 + payload + 3 ) * 8 ); }
};


// ------------------------------------------------------------------------------------------------ implementation
inline void world::run( const sim::Plan& plan )
{
    // per run knobs
    p_drift_ = static_cast< double >( plan.knob( "p_drift_ppm", 0 ) ) * 1e-6;
    r_.setup_margin_us = static_cast< std::uint32_t >( plan.knob( "setup_margin_us", 300 ) );
    r_.refuse_disarm = plan.knob( "refuse_disarm", 0 ) != 0;
    // both sides start their connection event counter at this value (seam BLUETOE_VERIF_INITIAL_EVENT_COUNTER): wrap around and sign change of the 16 bit counter within reach
    event_counter_base_ = static_cast< std::uint64_t >( plan.knob( "event_counter_base", 0 ) ) & 0xffff;
    g_initial_event_counter = static_cast< std::uint16_t >( event_counter_base_ );
    if ( event_counter_base_ ) res_.fault( "event_counter_near_wrap" );
    if ( r_.refuse_disarm ) res_.fault( "radio_refuses_disarm" );
    r_.now_us = r_.t0_us = 0;
    long idx = -1;
    snapshot_adv_schedule();
    for ( const auto& op : plan.ops )
    {
        ++idx;
        idx_ = idx;
        if ( stop_ ) break;
        switch ( ( ( op.kind % op_count ) + op_count ) % op_count )
        {
        case op_run: {
            const std::int64_t n = std::max< std::int64_t >( 1, std::min< std::int64_t >( op.arg( 0 ), 400 ) );
            for ( std::int64_t i = 0; i != n && !stop_; ++i ) ll_.run();
            break; }
        case op_scan_req:   scanner_.active = true; scanner_.op = op; break;
        case op_connect:    if ( !p_connected_ ) { initiator_.active = true; initiator_.op = op; } break;
        case op_air_fault:  air_fault_kind_ = static_cast< int >( ( ( op.arg( 0 ) % 4 ) + 4 ) % 4 ) + 1; air_fault_left_ = static_cast< int >( std::max< std::int64_t >( 1, std::min< std::int64_t >( op.arg( 1 ), 60 ) ) ); break;
        case op_central_control:
            if ( c_.connected ) queue_central_control( static_cast< std::uint8_t >( op.arg( 0 ) ), op.bytes, true, static_cast< int >( op.arg( 1, -1 ) ) );
            break;
        case op_central_update:
            if ( c_.connected && !c_.upd.active && !raw_instant_pdu_sent_ )
            {
                central_model::update u;
                u.active = true;
                u.kind = static_cast< int >( ( ( op.arg( 0 ) % 3 ) + 3 ) % 3 );
                std::int64_t delta = op.arg( 1 );
                // an instant that is meant to be legal stays legal with a long peripheral latency (the central knows the latency it granted)
                if ( delta >= 6 && delta < 30000 ) delta += c_.latency;
                u.instant = c_.abs_counter + static_cast< std::uint64_t >( delta );
                u.legal = delta >= 6 + c_.latency && delta < 32767;
                u.tag = next_tag_++;
                ++updates_on_connection_;
                bytes params;
                if ( u.kind == 0 )
                {
                    u.win_size_us = static_cast< std::uint32_t >( 1 + ( ( op.arg( 2 ) % 8 ) + 8 ) % 8 ) * 1250;
                    u.interval_us = static_cast< std::uint32_t >( 6 + ( ( op.arg( 4 ) % 200 ) + 200 ) % 200 ) * 1250;
                    u.win_offset_us = static_cast< std::uint32_t >( ( ( op.arg( 3 ) % 6 ) + 6 ) % 6 ) * 1250;
                    if ( u.win_offset_us > u.interval_us ) u.win_offset_us = 0;
                    if ( u.win_size_us > u.interval_us - 1250 ) u.win_size_us = 1250;
                    u.latency = static_cast< std::uint16_t >( ( ( op.arg( 5 ) % 500 ) + 500 ) % 500 );
                    { const std::uint32_t lmax = 31900000u / ( u.interval_us * 2u ); if ( u.latency + 1u > lmax ) u.latency = static_cast< std::uint16_t >( lmax ? lmax - 1 : 0 ); }
                    u.timeout_us = std::max< std::uint32_t >( 100000, ( u.latency + 1u ) * 2 * u.interval_us + 10000 );
                    u.timeout_us = ( u.timeout_us + 9999 ) / 10000 * 10000;
                    if ( u.timeout_us > 32000000 ) u.timeout_us = 32000000;
                    u.jitter_ns = static_cast< std::int64_t >( ( ( op.arg( 6 ) % 100 ) + 100 ) % 100 ) * ( static_cast< std::int64_t >( u.win_size_us ) * 10 );
                    params.push_back( static_cast< std::uint8_t >( u.win_size_us / 1250 ) ); put16( params, u.win_offset_us / 1250 ); put16( params, u.interval_us / 1250 ); put16( params, u.latency ); put16( params, u.timeout_us / 10000 );
                    put16( params, static_cast< unsigned >( u.instant & 0xffff ) );
                    c_.upd = u;
                    upd_pdu_tag_ = next_tag_; upd_kind_ = 0; upd_instant_ = u.instant;
                    queue_central_control( 0x00, params );
                }
                else if ( u.kind == 1 )
                {
                    sim::Rng rng( static_cast< std::uint64_t >( op.arg( 2 ) ) * 77 + 5 );
                    const unsigned n = 2 + static_cast< unsigned >( rng.below( rng.chance( 50 ) ? 4 : 36 ) );
                    std::memset( u.chm, 0, 5 );
                    for ( unsigned k = 0; k != n; ++k ) { const unsigned ch = static_cast< unsigned >( rng.below( 37 ) ); u.chm[ ch / 8 ] |= static_cast< std::uint8_t >( 1 << ( ch % 8 ) ); }
                    unsigned cnt = 0; for ( unsigned ch = 0; ch != 37; ++ch ) if ( u.chm[ ch / 8 ] & ( 1 << ( ch % 8 ) ) ) ++cnt;
                    if ( cnt < 2 ) { u.chm[ 0 ] |= 3; }
                    params.assign( u.chm, u.chm + 5 ); put16( params, static_cast< unsigned >( u.instant & 0xffff ) );
                    c_.upd = u;
                    upd_pdu_tag_ = next_tag_; upd_kind_ = 1; upd_instant_ = u.instant;
                    queue_central_control( 0x01, params );
                }
                else
                {
                    u.phy = ( op.arg( 2 ) & 1 ) ? 2 : 1;
                    params.push_back( static_cast< std::uint8_t >( u.phy ) ); params.push_back( static_cast< std::uint8_t >( u.phy ) ); put16( params, static_cast< unsigned >( u.instant & 0xffff ) );
                    c_.upd = u;
                    upd_pdu_tag_ = next_tag_; upd_kind_ = 2; upd_instant_ = u.instant;
                    queue_central_control( 0x18, params );
                }
                if ( !u.legal ) c_.sync_excused = true;
                res_.note( "central queues update kind %d instant +%lld", u.kind, (long long)delta );
            }
            break;
        case op_central_l2cap:
            if ( c_.connected && !op.bytes.empty() )
            {
                // one L2CAP frame in one LL PDU (<= 27 bytes), length field possibly wrong on purpose
                bytes f;
                const std::size_t n = std::min< std::size_t >( op.bytes.size(), 23 );
                put16( f, static_cast< unsigned >( static_cast< std::int64_t >( n ) + op.arg( 1 ) ) );
                put16( f, static_cast< unsigned >( op.arg( 0 ) ) );
                f.insert( f.end(), op.bytes.begin(), op.bytes.begin() + static_cast< long >( n ) );
                c_.txq.push_back( ll_pdu{ 2, f, 0 } );
            }
            break;
        case op_app: do_app( op ); break;
        case op_central_terminate:
            if ( c_.connected ) { queue_central_control( 0x02, bytes{ static_cast< std::uint8_t >( 0x13 ) } ); expected_close_reason_ = 0x13; }
            break;
        case op_central_enc:
            if ( c_.connected && ll_.has_encryption ) enc_op( op );
            break;
        }
        after_callbacks( "op" );
    }
    res_.sim_time_us = static_cast< std::uint64_t >( r_.now_us );
}

inline void world::activity()
{
    switch ( r_.pending )
    {
    case radio_state::advertising:      advertising_activity(); break;
    case radio_state::connection_event: connection_event_activity(); break;
    default:
        // nothing scheduled: the radio sleeps (advertising stopped); let some time pass
        r_.now_us += 10000;
        // advertising that was started and neither stopped nor used up goes on
        if ( adv_enabled_ && !p_connected_ && !stop_ )
        {
            if ( ++idle_while_enabled_ == 3 )
                violate( "C24", "advertising-stopped", adv_count_left_ > 0 ? "advertising-stopped count-left" : "advertising-stopped", "advertising is started (%s) and no connection exists, but nothing is scheduled any more",
                         adv_count_left_ > 0 ? "with PDUs left of its count" : "without limit" );
        }
        break;
    }
    if ( r_.pending != radio_state::nothing || !adv_enabled_ || p_connected_ ) idle_while_enabled_ = 0;
    after_callbacks( "radio" );
}

inline void world::snapshot_adv_schedule()
{
    // the map as it was when the pending PDU was scheduled: a PDU that is already scheduled is not taken back
    if ( r_.pending == radio_state::advertising && r_.adv_schedule_seq != adv_seq_seen_ ) { adv_map_at_schedule_ = adv_map_; adv_enabled_at_schedule_ = adv_enabled_; adv_seq_seen_ = r_.adv_schedule_seq; }
}

inline void world::close_adv_event()
{
    if ( event_channels_.empty() ) return;
    // every enabled channel once, ascending
    if ( !event_map_changed_ )
    {
        std::vector< unsigned > expect;
        for ( unsigned b = 0; b != 3; ++b ) if ( event_map_ & ( 1u << b ) ) expect.push_back( 37 + b );
        if ( event_channels_ != expect )
        {
            std::string got, want;
            for ( unsigned ch : event_channels_ ) got += std::to_string( ch ) + " ";
            for ( unsigned ch : expect ) want += std::to_string( ch ) + " ";
            const bool disabled_used = std::any_of( event_channels_.begin(), event_channels_.end(), [&]( unsigned ch ){ return !( event_map_ & ( 1u << ( ch - 37 ) ) ); } );
            violate( "C24", "advertising-event-channels", disabled_used ? "advertising-event-channels disabled-channel map=" + std::to_string( event_map_ ) : "advertising-event-channels map=" + std::to_string( event_map_ ),
                     "advertising event used channels %s, enabled channels are %s", got.c_str(), want.c_str() );
        }
    }
    event_channels_.clear();
}

inline void world::advertising_activity()
{
    ++adv_pdus;
    const std::int64_t tx_local = std::max( r_.now_us, r_.t0_us + static_cast< std::int64_t >( r_.when_us ) );
    const bool new_event = r_.when_us != 0 || event_channels_.empty();
    r_.t0_us = r_.t0_us + r_.when_us;
    if ( r_.t0_us < r_.now_us ) r_.t0_us = r_.now_us;       // "now"
    r_.now_us = tx_local;
    r_.pending = radio_state::nothing;
    const unsigned ch = r_.channel;
    const bytes adv( r_.adv_data.buffer, r_.adv_data.buffer + std::min< std::size_t >( r_.adv_data.size, 2 + ( r_.adv_data.buffer[ 1 ] & 0x3f ) ) );
    res_.note( "adv ch %u t=%lld type %u len %zu%s", ch, (long long)tx_local, adv[ 0 ] & 0xf, adv.size(), adv_count_left_ == 1 ? " (last of count)" : "" );

    // ---- C24: channels and rate
    if ( !adv_enabled_at_schedule_ )
        violate( "C24", "advertising-while-stopped", "advertising-while-stopped", "advertising PDU on channel %u although advertising is stopped", ch );
    if ( ch < 37 || ch > 39 )
        violate( "C24", "advertising-channel-range", "advertising-channel-range", "advertising on channel %u", ch );
    else if ( !( adv_map_at_schedule_ & ( 1u << ( ch - 37 ) ) ) )
        violate( "C24", "advertising-disabled-channel", "advertising-disabled-channel map=" + std::to_string( adv_map_at_schedule_ ) + " ch=" + std::to_string( ch ), "advertising PDU on channel %u which was disabled when it was scheduled (map 0x%x)", ch, adv_map_at_schedule_ );
    if ( new_event )
    {
        close_adv_event();
        if ( last_event_start_us_ >= 0 && r_.when_us != 0 )
        {
            const std::int64_t gap = tx_local - last_event_start_us_;
            const std::int64_t interval = static_cast< std::int64_t >( ll_.adv_interval_ms ) * 1000;
            // the event start is delayed by the PDUs of the previous event (the interval counts from the last PDU's T0)
            if ( gap < interval || gap > interval + 10000 + 3 * 2000 )
                violate( "C24", "advertising-interval", gap < interval ? "advertising-interval short" : "advertising-interval long", "advertising events %lld us apart, interval %lld us + 0..10 ms", (long long)gap, (long long)interval );
        }
        last_event_start_us_ = tx_local;
        event_map_ = adv_map_at_schedule_;
        event_map_changed_ = map_op_pending_;
        map_op_pending_ = false;
    }
    else if ( !event_channels_.empty() && ch <= event_channels_.back() && !event_map_changed_ )
        violate( "C24", "advertising-order", "advertising-order", "channel %u follows channel %u inside one advertising event", ch, event_channels_.back() );
    if ( adv_map_at_schedule_ != event_map_ ) event_map_changed_ = true;
    event_channels_.push_back( ch );
    // start_advertising( count ) counts PDUs: the last one cuts its advertising event short
    if ( adv_count_left_ > 0 && --adv_count_left_ == 0 ) { adv_enabled_ = false; adv_count_left_ = -1; event_channels_.clear(); last_event_start_us_ = -1; res_.probe( "advertising_count_exhausted" ); }
    r_.now_us += pdu_duration_us( adv.size() - 2 );

    // ---- somebody answers?
    const unsigned adv_type = adv[ 0 ] & 0xf;
    const bool adv_tx_random = ( adv[ 0 ] & 0x40 ) != 0;
    bytes rx;
    bool is_connect = false, connect_valid = false, connect_either = false;
    central_model nc;
    if ( initiator_.active )
    {
        initiator_.active = false;
        rx = make_connect_request( initiator_.op, adv, connect_valid, connect_either, nc );
        is_connect = true;
    }
    else if ( scanner_.active )
    {
        scanner_.active = false;
        rx = make_scan_request( scanner_.op, adv );
    }
    if ( rx.empty() )
    {
        r_.now_us += 150 + 200;
        r_.cb_adv_timeout();
        snapshot_adv_schedule();
        return;
    }
    r_.now_us += 150 + pdu_duration_us( rx.size() - 2 );
    // ---- scan request: answered by the radio (stub, per specification) iff scannable, well formed, addressed to us and in the filter
    const unsigned rx_type = rx[ 0 ] & 0xf;
    if ( rx_type == 0x3 && !is_connect )
    {
        const bool scannable = adv_type == 0 || adv_type == 6;
        const bool well_formed = rx.size() == 2 + 12 && ( rx[ 1 ] & 0x3f ) == 12;
        const bool addressed = well_formed && std::equal( rx.begin() + 8, rx.begin() + 14, adv.begin() + 2 ) && ( ( rx[ 0 ] & 0x80 ) != 0 ) == adv_tx_random;
        bool in_filter = false;
        if ( r_.real_front )
        {
            // the radio front end decides within the inter frame space; a request it does not answer goes to the link layer like any other PDU
            const unsigned who = well_formed ? rx[ 2 ] & 0x0f : 0;
            const bool model_in = !ll_.has_white_list || !wl_scan_filter_ || ( ( rx[ 0 ] & 0x40 ) != 0 && white_list_.count( who ) != 0 );
            const bool expect = scannable && addressed && model_in;
            const std::size_t n = std::min< std::size_t >( rx.size(), r_.adv_receive.size );
            const bool responded = r_.front_adv_reception( rx.data(), n );
            if ( responded != expect )
                violate( "C25", "scan-response-decision", responded ? ( !scannable ? "scan-response-decision answered not-scannable" : !addressed ? "scan-response-decision answered not-addressed" : "scan-response-decision answered filtered" ) : "scan-response-decision unanswered",
                         "scan request (%zu bytes, scannable %d, addressed %d, in white list by the model %d): the radio %s", rx.size(), scannable, addressed, model_in, responded ? "answered" : "did not answer" );
            if ( responded )
            {
                res_.note( "scan response sent" );
                res_.probe( "scan_response_sent" );
                const write_buffer& rsp = r_.front_response;
                r_.now_us += 150 + pdu_duration_us( rsp.size > 2 ? ( rsp.buffer[ 1 ] & 0x3f ) : 0 );
                if ( rsp.size < 8 || ( rsp.buffer[ 0 ] & 0xf ) != 4 || !std::equal( adv.begin() + 2, adv.begin() + 8, rsp.buffer + 2 ) )
                    violate( "C25", "scan-response-format", "scan-response-format", "scan response data is no SCAN_RSP of this device" );
            }
            if ( r_.pending == radio_state::connection_event )
                violate( "C25", "connect-decision", "connect-accepted scan-request", "a scan request opened a connection" );
            snapshot_adv_schedule();
            return;
        }
        if ( well_formed ) in_filter = r_.cb_scan_request_in_filter( bluetoe::link_layer::device_address( &rx[ 2 ], ( rx[ 0 ] & 0x40 ) != 0 ) );
        // model of the filter
        if ( well_formed )
        {
            const unsigned who = rx[ 2 ] & 0x0f;
            const bool model_in = !wl_scan_filter_ || ( ( rx[ 0 ] & 0x40 ) != 0 && white_list_.count( who ) != 0 );     // the white list holds random addresses only
            if ( ll_.has_white_list && in_filter != model_in )
                violate( "C25", "scan-filter", "scan-filter", "scan request from device #%u: filter says %d, model %d (filter %s)", who, in_filter, model_in, wl_scan_filter_ ? "on" : "off" );
        }
        if ( scannable && addressed && in_filter )
        {
            res_.note( "scan response sent" );
            res_.probe( "scan_response_sent" );
            r_.now_us += 150 + pdu_duration_us( r_.rsp_data.size > 2 ? ( r_.rsp_data.buffer[ 1 ] & 0x3f ) : 0 );
            if ( r_.rsp_data.size < 8 || ( r_.rsp_data.buffer[ 0 ] & 0xf ) != 4 || !std::equal( adv.begin() + 2, adv.begin() + 8, r_.rsp_data.buffer + 2 ) )
                violate( "C25", "scan-response-format", "scan-response-format", "scan response data is no SCAN_RSP of this device" );
        }
        r_.cb_adv_timeout();
        snapshot_adv_schedule();
        return;
    }
    // ---- everything else is handed to the link layer
    const std::size_t n = std::min< std::size_t >( rx.size(), r_.adv_receive.size );
    std::memcpy( r_.adv_receive.buffer, rx.data(), n );
    read_buffer rb{ r_.adv_receive.buffer, n };
    if ( is_connect ) r_.t0_us = r_.now_us;      // the anchor is the end of the connect request
    const std::size_t cb_before = rec_.log.size();
    r_.cb_adv_received( rb );
    const bool entered = r_.pending == radio_state::connection_event;
    res_.note( "adv rx type %u len %zu -> %s", rx_type, rx.size(), entered ? "connection" : "ignored" );
    // ---- C25 / C22: connection iff valid, addressed, permitted
    if ( connect_either && is_connect ) { connect_valid = entered; res_.probe( "directed_target_changed_while_pdu_pending" ); }
    if ( entered != ( is_connect && connect_valid ) )
    {
        const sim::Op& o = initiator_.op;
        violate( entered ? ( o.arg( 0 ) >= 4 && o.arg( 0 ) <= 6 ? "C22" : "C25" ) : "C25", "connect-decision", entered ? "connect-accepted kind=" + std::to_string( is_connect ? o.arg( 0 ) : -1 ) : "connect-refused",
                 "connect request (kind %lld, %zu bytes): link layer %s a connection, the model says it %s", (long long)( is_connect ? o.arg( 0 ) : -1 ), rx.size(), entered ? "entered" : "did not enter", entered ? "must not" : "must" );
    }
    if ( entered )
    {
        event_channels_.clear();        // the advertising event ends with the connect request
        last_event_start_us_ = -1;
        ++connections;
        p_connected_ = true;
        // without auto start, a connection ends the advertising: it has to be started again by the application
        if ( ll_.no_auto_start ) { adv_enabled_ = false; adv_count_left_ = -1; }
        established_ = false;
        connect_end_local_us_ = r_.t0_us;
        last_valid_rx_local_us_ = r_.t0_us;
        if ( is_connect && connect_valid )
        {
            c_ = nc;
            c_.connected = true;
            // first anchor: 1.25 ms + transmitWindowOffset + somewhere in the window after the end of the connect request
            c_.created_ns = to_true_ns( r_.t0_us );
            c_.anchor_ns += c_.created_ns;
            c_.last_heard_ns = c_.created_ns;
        }
        else c_.connected = false;
        last_attended_abs_ = 0;
        last_listened_abs_ = 0; listened_once_ = false;
        must_listen_next_ = true;
        expected_rsp_.clear(); waiting_controls_.clear(); lapsed_optional_.clear(); current_acked_ = false; quiet_events_ = 0; control_checks_excused_ = false; late_update_kind_ = -1; upd_pdu_tag_ = 0;
        version_sent_by_central_ = version_seen_from_peripheral_ = false; rx_full_streak_ = 0;
        app_procedure_started_local_us_ = -1; proc_watch_ = false; proc_watch_conn_update_ = false; last_proc_ending_pdu_local_us_ = -1; conn_update_applied_local_us_ = -1; last_app_procedure_call_local_us_ = -1; proc_ending_pdu_waits_for_instant_ = false; app_version_req_ = false; app_param_req_ = app_phy_req_ = 0;
        local_disconnect_requested_ = false;
        expected_close_reason_ = -1;
        raw_instant_pdu_sent_ = false; instant_passed_justified_ = false; updates_on_connection_ = 0; tx_starved_since_update_ = false; remote_terminate_reasons_.clear(); map_update_sent_ = false; update_applied_local_us_ = -1;
        model_enc_ = model_enc_seen_ = false; enc_delivered_.clear(); enc_batch_.clear(); last_reported_enc_ = false; start_enc_req_seen_ = false; tx_session_legit_ = false; enc_started_this_event_ = false; rx_session_legit_ = prev_rx_enc_ = false; enc_legit_starts_ = enc_reported_ = 0; start_committed_ = false; prev_rx_enc_starts_ = r_.rx_enc_starts; changed_checked_ = rec_.changed_encrypted.size(); att_req_while_enc_.clear(); att_rsp_seen_ = false;
        reject_due_in_ = -1; legit_secret_writes_ = 0;
        if ( ll_.secret ) secret_snapshot_.assign( ll_.secret, ll_.secret + ll_.secret_size );
        (void)cb_before;
    }
    snapshot_adv_schedule();
}

inline bytes world::make_scan_request( const sim::Op& op, const bytes& adv ) const
{
    // arg0 kind, arg1 scanner id (0..11)
    const int kind = static_cast< int >( ( ( op.arg( 0 ) % 7 ) + 7 ) % 7 );
    const unsigned who = static_cast< unsigned >( ( ( op.arg( 1 ) % 12 ) + 12 ) % 12 );
    bytes p{ 0x03, 12 };
    p[ 0 ] |= 0x40;                                         // scanner uses a random address
    if ( adv[ 0 ] & 0x40 ) p[ 0 ] |= 0x80;                  // RxAdd = type of the advertiser's address
    const std::uint8_t scanner[ 6 ] = { static_cast< std::uint8_t >( 0xa0 | who ), 0x11, 0x22, 0x33, 0x44, 0xc5 };
    p.insert( p.end(), scanner, scanner + 6 );
    p.insert( p.end(), adv.begin() + 2, adv.begin() + 8 );
    switch ( kind )
    {
    case 1: p[ 9 ] ^= 0x01; break;                          // other AdvA
    case 2: p[ 0 ] ^= 0x80; break;                          // wrong address type
    case 3: p.push_back( 0 ); p[ 1 ] = 13; break;           // too long
    case 4: p.pop_back(); p[ 1 ] = 11; break;               // too short
    case 5: p[ 0 ] = static_cast< std::uint8_t >( ( p[ 0 ] & 0xf0 ) | 0x00 ); break;   // an ADV_IND of another device
    case 6: p[ 0 ] &= static_cast< std::uint8_t >( ~0x40 ); break;                     // another device: the same 48 bits as public address
    default: break;
    }
    return p;
}

inline bytes world::make_connect_request( const sim::Op& op, const bytes& adv, bool& valid, bool& either, central_model& nc ) const
{
    // a: 0 kind, 1 initiator id, 2 interval (1.25 ms), 3 latency, 4 timeout (10 ms), 5 window size, 6 window offset, 7 hop, 8 channel map seed, 9 sca, 10 jitter permille of the window, 11 md burst
    const int kind = static_cast< int >( ( ( op.arg( 0 ) % 10 ) + 10 ) % 10 );
    const unsigned who = static_cast< unsigned >( ( ( op.arg( 1 ) % 12 ) + 12 ) % 12 );
    std::uint32_t interval = static_cast< std::uint32_t >( 6 + ( ( op.arg( 2 ) % 3195 ) + 3195 ) % 3195 );      // 7.5 ms .. 4 s, the range of the specification
    std::uint32_t latency = static_cast< std::uint32_t >( ( ( op.arg( 3 ) % 500 ) + 500 ) % 500 );      // 0..499, the range of the specification
    // ... as far as the largest supervision timeout (32 s) permits with this interval: timeout > (1 + latency) * interval * 2
    { const std::uint32_t lmax = 31900000u / ( interval * 1250u * 2u ); if ( latency + 1 > lmax ) latency = lmax ? lmax - 1 : 0; }
    std::uint32_t winsize = static_cast< std::uint32_t >( 1 + ( ( op.arg( 5 ) % 8 ) + 8 ) % 8 );
    if ( winsize > interval - 1 ) winsize = interval - 1;
    if ( winsize > 8 ) winsize = 8;
    std::uint32_t winoffset = static_cast< std::uint32_t >( ( ( op.arg( 6 ) % 3201 ) + 3201 ) % 3201 );     // 0 .. interval
    if ( winoffset > interval ) winoffset = interval;
    std::uint32_t timeout = static_cast< std::uint32_t >( 10 + ( ( op.arg( 4 ) % 3191 ) + 3191 ) % 3191 );     // 100 ms .. 32 s
    const std::uint32_t min_timeout = ( ( 1 + latency ) * interval * 1250 * 2 + 9999 ) / 10000 + 1;
    if ( timeout < min_timeout ) timeout = min_timeout;
    if ( timeout > 3200 ) timeout = 3200;
    unsigned hop = 5 + static_cast< unsigned >( ( ( op.arg( 7 ) % 12 ) + 12 ) % 12 );
    const unsigned sca = static_cast< unsigned >( ( ( op.arg( 9 ) % 8 ) + 8 ) % 8 );
    std::uint8_t chm[ 5 ] = { 0xff, 0xff, 0xff, 0xff, 0x1f };
    if ( op.arg( 8 ) != 0 )
    {
        sim::Rng rng( static_cast< std::uint64_t >( op.arg( 8 ) ) * 31 + 7 );
        std::memset( chm, 0, 5 );
        const unsigned n = 2 + static_cast< unsigned >( rng.below( rng.chance( 50 ) ? 4 : 36 ) );
        for ( unsigned k = 0; k != n; ++k ) { const unsigned c = static_cast< unsigned >( rng.below( 37 ) ); chm[ c / 8 ] |= static_cast< std::uint8_t >( 1 << ( c % 8 ) ); }
        unsigned cnt = 0; for ( unsigned c = 0; c != 37; ++c ) if ( chm[ c / 8 ] & ( 1 << ( c % 8 ) ) ) ++cnt;
        if ( cnt < 2 ) chm[ 0 ] |= 3;
    }
    valid = true;
    bytes p{ 0x05, 34 };
    p[ 0 ] |= 0x40;
    if ( adv[ 0 ] & 0x40 ) p[ 0 ] |= 0x80;
    const std::uint8_t init[ 6 ] = { static_cast< std::uint8_t >( 0xa0 | who ), 0x11, 0x22, 0x33, 0x44, 0xc5 };
    p.insert( p.end(), init, init + 6 );
    p.insert( p.end(), adv.begin() + 2, adv.begin() + 8 );
    switch ( kind )
    {
    case 1: valid = false; break;                                   // other AdvA (below)
    case 2: valid = false; break;                                   // wrong address type (below)
    case 3: valid = false; break;                                   // wrong length (below)
    case 4: valid = false; switch ( who % 5 ) { case 0: timeout = 5; break; case 1: latency = 500; break; case 2: winsize = interval + 1 > 255 ? 9 : interval + 1; break; case 3: timeout = min_timeout > 2 ? min_timeout - 2 : 1; latency = latency ? latency : 3; timeout = ( ( 1 + latency ) * interval * 1250 * 2 ) / 10000 - 1; break; default: winoffset = interval + 1; break; } break;
    case 5: valid = false; hop = ( who & 1 ) ? 4 : 17; break;
    case 6: valid = false; std::memset( chm, 0, 5 ); chm[ ( who % 4 ) ] = static_cast< std::uint8_t >( 1 << ( who % 8 ) ); break;
    case 7: break;                                                  // possibly outside the white list: decided below
    default: break;
    }
    if ( kind == 4 && ( who % 5 ) == 3 && timeout >= min_timeout - 1 ) { /* could not make it invalid */ timeout = 9; }
    // LLData
    const std::uint32_t aa = 0x8e89be00u + who * 0x101 + 0x5a;
    p.push_back( static_cast< std::uint8_t >( aa ) ); p.push_back( static_cast< std::uint8_t >( aa >> 8 ) ); p.push_back( static_cast< std::uint8_t >( aa >> 16 ) ); p.push_back( static_cast< std::uint8_t >( aa >> 24 ) );
    p.push_back( 0x12 ); p.push_back( 0x34 ); p.push_back( 0x56 );
    p.push_back( static_cast< std::uint8_t >( winsize ) );
    put16( p, winoffset ); put16( p, interval ); put16( p, latency ); put16( p, timeout );
    p.insert( p.end(), chm, chm + 5 );
    p.push_back( static_cast< std::uint8_t >( hop | ( sca << 5 ) ) );
    if ( kind == 1 ) p[ 10 ] ^= 0x04;
    if ( kind == 2 ) p[ 0 ] ^= 0x80;
    if ( kind == 3 ) { if ( who & 1 ) { p.push_back( 0 ); p[ 1 ] = 35; } else { p.pop_back(); p[ 1 ] = 33; } }
    if ( kind == 9 ) p[ 0 ] &= static_cast< std::uint8_t >( ~0x40 );       // another device: the same 48 bits as public address (never in the white list)
    const bool init_random = ( p[ 0 ] & 0x40 ) != 0;
    // directed advertising: only the target may connect. The target is the device named in the PDU on the air; when the application named another
    // target after that PDU was scheduled, the property does not say which of the two counts: either decision is accepted for these two devices
    either = false;
    if ( ( adv[ 0 ] & 0xf ) == 1 )
    {
        const bool is_target = adv.size() >= 14 && std::equal( init, init + 6, adv.begin() + 8 ) && ( ( adv[ 0 ] & 0x80 ) != 0 ) == init_random;
        const bool is_configured_target = directed_target_ >= 0 && who == static_cast< unsigned >( directed_target_ ) && init_random;
        if ( !is_target && !is_configured_target ) valid = false;
        else if ( is_target != is_configured_target && valid ) either = true;
    }
    if ( ( adv[ 0 ] & 0xf ) == 2 || ( adv[ 0 ] & 0xf ) == 6 ) valid = false;      // not connectable
    if ( ll_.has_white_list && wl_conn_filter_ && !( init_random && white_list_.count( who ) ) ) valid = false;
    static const unsigned sca_ppm[ 8 ] = { 500, 250, 150, 100, 75, 50, 30, 20 };
    nc = central_model();
    nc.interval_us = interval * 1250; nc.latency = static_cast< std::uint16_t >( latency ); nc.timeout_us = timeout * 10000; std::memcpy( nc.chm, chm, 5 ); nc.hop = hop; nc.sca_ppm = sca_ppm[ sca ];
    // the central's clock error stays inside its announced accuracy; extremes are likely
    const std::int64_t j = op.arg( 10 );
    const int dsel = static_cast< int >( ( ( op.arg( 9 ) / 8 % 5 ) + 5 ) % 5 );
    nc.drift = ( dsel == 0 ? 1.0 : dsel == 1 ? -1.0 : dsel == 2 ? 0.0 : dsel == 3 ? 0.5 : -0.7 ) * nc.sca_ppm * 1e-6;
    nc.md_burst = 1 + static_cast< unsigned >( ( ( op.arg( 11 ) % 4 ) + 4 ) % 4 );
    // first anchor relative to the end of the connect request (filled in by the caller with the true end time): encoded in anchor_ns as offset
    nc.anchor_ns = static_cast< std::int64_t >( 1250 + winoffset * 1250 ) * 1000 + static_cast< std::int64_t >( ( ( j % 1000 ) + 1000 ) % 1000 ) * static_cast< std::int64_t >( winsize ) * 1250;
    nc.abs_counter = nc.counter_base = event_counter_base_;
    return p;
}

inline void world::queue_central_control( std::uint8_t opcode, const bytes& params, bool raw, int forced_len )
{
    ll_pdu p;
    p.llid = 3;
    p.payload.push_back( opcode );
    p.payload.insert( p.payload.end(), params.begin(), params.end() );
    if ( raw && forced_len >= 0 ) p.payload.resize( static_cast< std::size_t >( std::min( forced_len, 27 ) ) + 0, 0 );
    if ( p.payload.empty() ) p.payload.push_back( opcode );
    if ( p.payload.size() > 27 ) p.payload.resize( 27 );
    p.tag = next_tag_++;
    if ( raw && ( ( opcode == 0x00 && p.payload.size() == 12 ) || ( opcode == 0x01 && p.payload.size() == 8 ) || ( opcode == 0x18 && p.payload.size() == 5 ) ) )
    {
        // an instant based PDU with arbitrary content outside the central's own update model: whatever follows is the central's fault
        c_.sync_excused = true;
        control_checks_excused_ = true;
        c_.upd.tag = -1;
        // the peripheral may hold this PDU until an instant the model does not know: a later procedure of the reference central would overlap with it
        raw_instant_pdu_sent_ = true;
    }
    // ---- C27: what must come back
    const std::size_t len = p.payload.size();
    expect_rsp e{ opcode, len, p.payload, false, {}, p.tag };
    switch ( opcode )
    {
    // e.none with a non empty e.allowed: an answer is optional
    case 0x00: if ( len == 12 ) e.none = true; else e.allowed = { 0x07 }; break;            // connection update: no response
    case 0x01: if ( len == 8 ) e.none = true; else e.allowed = { 0x07 }; break;
    case 0x02: e.none = true; if ( len != 2 ) { e.none = false; e.allowed = { 0x07 }; } break;
    case 0x07: e.none = true; break;                                                            // responses and rejects are never answered
    case 0x0d: e.none = true; if ( len != 2 ) e.allowed = { 0x07 }; break;                      // (a malformed one may be called unknown)
    case 0x11: e.none = true; if ( len != 3 ) e.allowed = { 0x07 }; break;
    case 0x08: e.allowed = { len == 9 ? 0x09 : 0x07 }; break;
    case 0x0c: // one LL_VERSION_IND per connection and side: no answer once the peripheral has sent its own (or is about to)
               if ( len != 6 ) e.allowed = { 0x07 };
               else if ( version_sent_by_central_ ) { e.none = true; e.allowed = { 0x07 }; e.opcode = 0xfe; }
               else if ( version_seen_from_peripheral_ || app_version_req_ ) { e.none = true; e.allowed = { 0x0c }; }
               else e.allowed = { 0x0c };
               if ( len == 6 ) version_sent_by_central_ = true; break;
    case 0x12: e.allowed = { len == 1 ? 0x13 : 0x07 }; break;
    case 0x16: e.allowed = { len == 3 ? 0x17 : 0x07 }; break;
    case 0x18: if ( len == 5 ) { e.none = true; e.allowed = { 0x07 }; } else e.allowed = { 0x07 }; break;       // invalid PHY values may be called unknown
    case 0x0f: if ( len == 24 ) e.allowed = { 0x10, 0x11, 0x0d, 0x07 }; else e.allowed = { 0x07 }; break;
    case 0x03: case 0x04: case 0x05: case 0x06: case 0x0a: case 0x0b: e.allowed = { 0x07, 0x0d, 0x11, 0x04, 0x05, 0x06, 0x0b }; e.opcode = 0xff;          // encryption procedure: judged by C28, not here
               if ( ll_.has_encryption ) e.none = true;     // with link encryption the answers (if any) are consumed by the central's encryption state machine
               break;
    case 0x09: case 0x10: case 0x13: case 0x17: case 0x14: case 0x15: e.allowed = { 0x07 }; e.opcode = 0xff; break;   // responses to procedures the peripheral may have started: lenient
    default: e.allowed = { 0x07 }; break;
    }
    if ( opcode == 0x02 && len == 2 ) remote_terminate_reasons_.insert( p.payload[ 1 ] );
    if ( opcode == 0x01 && len == 8 ) map_update_sent_ = true;
    res_.note( "central queues control 0x%02x len %zu", opcode, len );
    if ( e.none && e.allowed.empty() )
    {
        // nothing can come back: such PDUs may be sent in bursts
        c_.txq.push_back( p );
        return;
    }
    waiting_controls_.push_back( { p, e } );
    release_next_control();
}

inline void world::release_next_control()
{
    if ( !expected_rsp_.empty() || waiting_controls_.empty() ) return;
    c_.txq.push_back( waiting_controls_.front().first );
    expected_rsp_.push_back( waiting_controls_.front().second );
    waiting_controls_.pop_front();
    current_acked_ = false;
    quiet_events_ = 0;
}

inline void world::central_unanswered_event()
{
    // an event of the central that the peripheral did not attend (or whose packets were lost)
    const std::int64_t interval_true_ns = static_cast< std::int64_t >( static_cast< long double >( c_.interval_us ) * 1000.0L / ( 1.0L + static_cast< long double >( c_.drift ) ) );
    if ( c_.anchor_ns - c_.last_heard_ns > static_cast< std::int64_t >( c_.timeout_us ) * 1000 || ( !c_.heard_once && c_.abs_counter >= 6 ) )
    {
        res_.note( "central gives up (supervision) at event %llu", (unsigned long long)c_.abs_counter );
        c_.connected = false;
        return;
    }
    central_advance_event();
    (void)interval_true_ns;
}

inline void world::central_advance_event()
{
    // move to the next event, applying an update whose instant is reached
    const long double k = 1.0L / ( 1.0L + static_cast< long double >( c_.drift ) );
    std::int64_t next = c_.anchor_ns + static_cast< std::int64_t >( static_cast< long double >( c_.interval_us ) * 1000.0L * k );
    ++c_.abs_counter;
    if ( c_.upd.active && c_.abs_counter == c_.upd.instant )
    {
        if ( !c_.upd.acked || local_disconnect_requested_ ) c_.sync_excused = true;       // the peripheral never got the PDU: it cannot follow; or it is about to leave (termination procedure in progress, nothing else is processed)
        switch ( c_.upd.kind )
        {
        case 0:
            next += static_cast< std::int64_t >( static_cast< long double >( c_.upd.win_offset_us ) * 1000.0L * k ) + c_.upd.jitter_ns;
            timeout_before_update_us_ = c_.timeout_us; update_applied_local_us_ = to_local_us( next );
            c_.timing_unconfirmed = true;
            if ( proc_watch_ ) proc_watch_conn_update_ = true;
            conn_update_applied_local_us_ = r_.now_us;
            c_.interval_us = c_.upd.interval_us; c_.latency = c_.upd.latency; c_.timeout_us = c_.upd.timeout_us;
            break;
        case 1: std::memcpy( c_.chm, c_.upd.chm, 5 ); break;
        case 2: c_.phy = c_.upd.phy; break;
        }
        if ( c_.upd.acked && c_.upd.legal ) ++instants_applied;
        // received PDUs queue up behind a PDU that waits for its instant: one that may end a procedure of the peripheral is looked at only now
        if ( proc_ending_pdu_waits_for_instant_ ) { proc_ending_pdu_waits_for_instant_ = false; proc_watch_ = false; last_proc_ending_pdu_local_us_ = r_.now_us + static_cast< std::int64_t >( c_.interval_us ) * 2; }
        res_.note( "central applies update kind %d at event %llu", c_.upd.kind, (unsigned long long)c_.abs_counter );
        c_.upd.active = false;
    }
    c_.anchor_ns = next;
}

inline void world::connection_event_activity()
{
    ++connection_events;
    r_.pending = radio_state::nothing;
    if ( r_.too_late )
    {
        res_.note( "event too late" );
        res_.probe( "connection_event_scheduled_too_late" );
        r_.cb_timeout();
        return;
    }
    const std::int64_t ws = r_.t0_us + r_.start_us, we = r_.t0_us + r_.end_us;
    const std::uint16_t k16 = static_cast< std::uint16_t >( ll_.event_counter() );
    // the absolute number of the event the peripheral aims at
    const std::uint64_t k_abs = c_.abs_counter + static_cast< std::uint64_t >( static_cast< std::int64_t >( static_cast< std::int16_t >( static_cast< std::uint16_t >( k16 - static_cast< std::uint16_t >( c_.abs_counter ) ) ) ) );
    if ( getenv( "STACK_TRACE_AIR" ) ) res_.note( "  (central at event %llu, anchor %lld us local, T0 %lld)", (unsigned long long)c_.abs_counter, (long long)to_local_us( c_.anchor_ns ), (long long)r_.t0_us );
    res_.note( "evt k=%u ch %u win %lld..%lld", k16, r_.channel, (long long)( ws - r_.t0_us ), (long long)( we - r_.t0_us ) );
    if ( ws < r_.now_us && !c_.sync_excused )
        res_.probe( "window_starts_in_the_past" );
    if ( late_update_kind_ >= 0 && local_disconnect_requested_ ) late_update_kind_ = -1;     // the termination procedure is all that is left
    if ( late_update_kind_ >= 0 && c_.connected && c_.abs_counter > late_update_deadline_ )
    {
        // control PDUs are only looked at when a transmit buffer of maximum size is free, whether they need an answer or not
        violate( "C21", "instant-passed-not-detected", "instant-passed-not-detected kind=" + std::to_string( late_update_kind_ ), "an instant based PDU (kind %d) reached the peripheral after its instant; %llu events later the connection is neither terminated with Instant Passed nor did the peripheral apply it",
                 late_update_kind_, (unsigned long long)( c_.abs_counter - late_update_deadline_ + 8 ) );
        late_update_kind_ = -1;
    }

    // C27: a procedure the peripheral started and the central never answered ends the connection (LL Response Timeout) 40 s after it started -
    // the timer runs from the transmission of the request; some events of slack for a request that waited for a transmit buffer and for the
    // termination procedure
    if ( proc_watch_ && p_connected_ && c_.connected && !local_disconnect_requested_ && !c_.sync_excused && !control_checks_excused_ )
    {
        const std::int64_t slack = 2000000 + 12 * static_cast< std::int64_t >( c_.interval_us ) * ( c_.latency + 1 );
        if ( r_.now_us - proc_watch_since_local_us_ > 40000000 + slack )
        {
            violate( "C27", "procedure-timeout-missing", proc_watch_conn_update_ ? "procedure-timeout-missing connection-update-instant" : "procedure-timeout-missing", "a procedure the peripheral started %lld us ago got no answer and the connection is still up (LL Response Timeout is due after 40 s)",
                     (long long)( r_.now_us - proc_watch_since_local_us_ ) );
            proc_watch_ = false;
        }
    }

    // the central transmits its events whether or not the peripheral listens
    bool heard = false, crc_error = false;
    std::int64_t rx_local = 0;
    // 2 us tolerance: delta_time::ppm() rounds down by less than 1 us and the simulated radio has a resolution of 1 us
    // plus 2 ppm of the time since the last anchor: two clocks at opposite ends of their accuracy differ by slightly more than the sum
    // of the accuracies (1000.5 ppm for +-500 ppm), which the widening the property asks for (the sum) does not cover
    const std::int64_t tolerance_us = 2 + static_cast< std::int64_t >( we - r_.t0_us ) / 500000;
    bool own_anchor_before_window = false;
    unsigned passed_unlistened = 0;
    std::int64_t own_anchor_local = 0;
    while ( c_.connected && to_local_us( c_.anchor_ns ) < ws - tolerance_us )
    {
        // the window of the event the peripheral aims at opens after that event's anchor
        if ( c_.abs_counter == k_abs ) { own_anchor_before_window = true; own_anchor_local = to_local_us( c_.anchor_ns ); }
        ++passed_unlistened;
        central_unanswered_event();
        if ( getenv( "STACK_TRACE_AIR" ) && c_.abs_counter + 3 > k_abs ) res_.note( "    central steps to %llu anchor %lld (ws %lld we %lld connected %d)", (unsigned long long)c_.abs_counter, (long long)to_local_us( c_.anchor_ns ), (long long)ws, (long long)we, c_.connected );
    }
    // whatever number the peripheral gives its event: the first event of a connection has to be listened to (there is no latency before it)
    if ( passed_unlistened && !listened_once_ && !own_anchor_before_window && !c_.sync_excused && ( c_.connected || !c_.heard_once ) )
    {
        violate( "C22", "window-misses-anchor", "window-misses-first-anchor not-listened", "the first receive window of the connection [%lld, %lld] us after the connect request opens after %u connection events of the central have passed (the peripheral calls it event %u)",
                 (long long)( ws - r_.t0_us ), (long long)( we - r_.t0_us ), passed_unlistened, k16 );
        c_.sync_excused = true;
    }
    // Vol 6 Part B 4.5.7: when the window widening reaches half the interval (less T_IFS) the connection is to be considered lost - neighbouring
    // events cannot be told apart any more; nothing about such an event is judged
    if ( c_.connected && !c_.sync_excused && established_ && ( we - ws ) / 2 + 150 >= static_cast< std::int64_t >( c_.interval_us ) / 2 )
    {
        res_.probe( "window_widening_reached_half_the_interval" );
        c_.sync_excused = true;
    }
    const bool in_window = c_.connected && to_local_us( c_.anchor_ns ) <= we + tolerance_us;
    if ( own_anchor_before_window && c_.connected && !c_.sync_excused )
    {
        const bool around_update = c_.upd.active || instants_applied || ( c_.upd.kind == 0 && c_.upd.tag > 0 );
        violate( around_update ? "C21" : "C22", "window-misses-anchor", std::string( established_ ? "window-misses-anchor late" : "window-misses-first-anchor late" ),
                 "event %llu: window [%lld, %lld] us after T0 opens after the central's anchor of that event at %lld us (interval %u us)", (unsigned long long)k_abs,
                 (long long)( ws - r_.t0_us ), (long long)( we - r_.t0_us ), (long long)( own_anchor_local - r_.t0_us ), c_.interval_us );
        c_.sync_excused = true;     // both sides count differently from here on
    }

    // ---- oracles on what the peripheral scheduled (only while the central is alive and did not excuse the peripheral)
    if ( c_.connected && !c_.sync_excused )
    {
        // C22: the anchor of the targeted event lies inside the window
        if ( k_abs == c_.abs_counter && !in_window )
        {
            const bool around_update = c_.upd.active || instants_applied || ( c_.upd.kind == 0 && c_.upd.tag > 0 );
            violate( around_update ? "C21" : "C22", "window-misses-anchor", std::string( established_ ? "window-misses-anchor" : "window-misses-first-anchor" ),
                     "event %llu: window [%lld, %lld] us after T0 does not contain the central's anchor at %lld us (interval %u us, combined accuracy, drifts p %.0f ppm c %.0f ppm)", (unsigned long long)k_abs,
                     (long long)( ws - r_.t0_us ), (long long)( we - r_.t0_us ), (long long)( to_local_us( c_.anchor_ns ) - r_.t0_us ), c_.interval_us, p_drift_ * 1e6, c_.drift * 1e6 );
            // a connection update that was not applied in time: from here on both sides use different timing, everything else would be a consequence
            // (the central may already have queued the next update: timing_unconfirmed remembers the one it applied)
            if ( around_update && ( c_.upd.kind == 0 || c_.timing_unconfirmed ) ) c_.sync_excused = true;
        }
        if ( k_abs == c_.abs_counter && in_window ) c_.timing_unconfirmed = false;
        if ( k_abs != c_.abs_counter && in_window )
            violate( "C23", "event-counter", "event-counter", "the window contains the central's event %llu but the peripheral counts it as event %llu", (unsigned long long)c_.abs_counter, (unsigned long long)k_abs );
        // C20: channel of the targeted event
        if ( k_abs >= c_.abs_counter )
        {
            // the map in force at event k_abs
            const std::uint8_t* map = ( c_.upd.active && c_.upd.kind == 1 && k_abs >= c_.upd.instant ) ? c_.upd.chm : c_.chm;
            const unsigned want = c_.csa1( k_abs, map );
            if ( r_.channel != want )
            {
                const bool around_instant = map_update_sent_;      // a channel map update was delivered (or is on its way) on this connection
                // the channel is wrong for the map in force at that event (C20); after a channel map update the cause is the handling of its instant (C21)
                violate( "C20", "data-channel", std::string( around_instant ? "data-channel at-map-instant" : "data-channel" ), "event %llu scheduled on channel %u, Channel Selection Algorithm #1 gives %u (hop %u)", (unsigned long long)k_abs, r_.channel, want, c_.hop );
                // event counter and channel index are to advance together (C23): without a map update in play the channel can only be wrong because they did not
                if ( !around_instant )
                    violate( "C23", "channel-index", "channel-index", "event %llu scheduled on channel %u: the channel index is not in step with the event counter (Channel Selection Algorithm #1 gives %u, hop %u)", (unsigned long long)k_abs, r_.channel, want, c_.hop );
                if ( around_instant )
                    violate( "C21", "data-channel", "data-channel at-map-instant", "event %llu scheduled on channel %u, Channel Selection Algorithm #1 gives %u (hop %u)", (unsigned long long)k_abs, r_.channel, want, c_.hop );
                c_.sync_excused = true;     // from here on the two sides hop differently: everything else would be a consequence
            }
        }
        // C23: latency
        // (an event the peripheral wanted to attend but could not set up in time any more - with a long sleep the widened windows of neighbouring events
        // touch - is not one it chose to skip)
        const bool gave_up_too_late = r_.too_late_events != seen_too_late_events_;
        seen_too_late_events_ = r_.too_late_events;
        if ( listened_once_ && k_abs > last_listened_abs_ )
        {
            const std::uint64_t skipped = k_abs - last_listened_abs_ - 1;
            if ( skipped ) { ++latency_skips; res_.probe( "events_skipped_by_latency", skipped ); }
            if ( skipped > std::max( c_.latency, latency_at_last_listen_ ) )
                violate( "C23", "latency-exceeded", "latency-exceeded", "peripheral skips %llu events, the connection's peripheral latency is %u", (unsigned long long)skipped, std::max( c_.latency, latency_at_last_listen_ ) );
            else if ( skipped && must_listen_next_ && !gave_up_too_late )
                violate( "C23", "listen-condition", "listen-condition reason=" + std::to_string( listen_reason_event_ ), "peripheral skips %llu events although a configured listen condition (%llu) held at the last event", (unsigned long long)skipped, (unsigned long long)listen_reason_event_ );
            if ( c_.upd.active && c_.upd.acked && last_listened_abs_ < c_.upd.instant && k_abs > c_.upd.instant )
                violate( "C21", "instant-skipped", "instant-skipped", "peripheral latency skips the instant %llu (listening at %llu)", (unsigned long long)c_.upd.instant, (unsigned long long)k_abs );
        }
        // C21: phy in force
        if ( r_.phy_rx != c_.phy && k_abs == c_.abs_counter && !( c_.upd.active && c_.upd.kind == 2 && k_abs >= c_.upd.instant ) )
            violate( "C21", "phy-instant", std::string( "phy-instant" ), "event %llu: radio listens with PHY %u, the central uses %u", (unsigned long long)k_abs, r_.phy_rx, c_.phy );
    }

    last_listened_abs_ = k_abs;
    latency_at_last_listen_ = c_.latency;
    listened_once_ = true;
    if ( in_window )
    {
        const int fault = air_fault_left_ > 0 ? air_fault_kind_ : 0;
        if ( air_fault_left_ > 0 ) { --air_fault_left_; ++faults_fired; res_.fault( fault == 1 ? "c2p_lost" : fault == 2 ? "c2p_crc" : fault == 3 ? "p2c_lost" : "central_silent" ); }
        rx_local = to_local_us( c_.anchor_ns );      // the anchor the radio captures is the start of the packet, also when it is heard only thanks to the tolerance
        const bool channel_ok = r_.channel == c_.csa1( c_.abs_counter, c_.chm ) && r_.phy_rx == c_.phy;
        if ( fault == 1 || fault == 4 || !channel_ok )
        {
            // nothing heard
        }
        else if ( fault == 2 && r_.real_front )
        {
            // the nRF52 radio reports a CRC error like no reception at all: no response, the event times out
        }
        else
        {
            heard = true;
            crc_error = fault == 2;
        }
        if ( !heard )
        {
            central_unanswered_event();
        }
        else
        {
            // ---- the exchange
            connection_event_events evts;
            unsigned packets = 0;
            bool undecodable_rsp = false;
            std::int64_t t = rx_local;
            bool more = true;
            bool first = true;
            // (the nRF52 front end answers one PDU per event and clears its own MD flag; a central may close the event whenever it likes)
            const unsigned burst = r_.real_front ? 1u : c_.md_burst;
            while ( more && packets < burst )
            {
                ++packets;
                if ( !c_.has_inflight )
                {
                    c_.has_inflight = true;
                    if ( !c_.txq.empty() ) { c_.inflight = c_.txq.front(); c_.txq.pop_front(); }
                    else { c_.inflight = ll_pdu(); c_.inflight.llid = 1; }
                }
                const bool c_md = !c_.txq.empty() && ( packets < c_.md_burst || ( r_.real_front && c_.md_burst > 1 ) );
                read_buffer buf = r_.buf_allocate_receive();
                write_buffer trans{ nullptr, 0 };
                const bool fits = buf.size >= 2 + c_.inflight.payload.size();
                t += pdu_duration_us( c_.inflight.payload.size() );
                // link encryption: a non empty PDU is understood if both sides agree on whether it is encrypted and, if so, on the key
                const bool pdu_enc   = ll_.has_encryption && !c_.inflight.payload.empty() && ( c_.inflight.enc == -1 ? c_.tx_enc : c_.inflight.enc == 1 );
                const bool decodable = !ll_.has_encryption || c_.inflight.payload.empty()
                                    || ( pdu_enc == r_.rx_enc && ( !pdu_enc || ( c_.has_key && r_.key_set && c_.key == r_.enc_key ) ) );
                if ( getenv( "STACK_TRACE_AIR" ) ) res_.note( "    c->p len %zu enc %d decodable %d buf %zu (radio rx_enc %d tx_enc %d key %d)", c_.inflight.payload.size(), pdu_enc, decodable, (std::size_t)buf.size, r_.rx_enc, r_.tx_enc, r_.key_set );
                r_.front_rx_header[ 0 ] = static_cast< std::uint8_t >( c_.inflight.llid | ( c_.nesn ? 4 : 0 ) | ( c_.sn ? 8 : 0 ) | ( c_md ? 0x10 : 0 ) );
                r_.front_rx_header[ 1 ] = static_cast< std::uint8_t >( c_.inflight.payload.size() );
                if ( ( crc_error && first ) || !decodable )
                {
                    if ( !decodable ) { res_.fault( "c2p_mic_failure" ); undecodable_rsp = true; }
                    if ( !decodable && r_.real_front && buf.size != 0 && fits )
                    {
                        // valid CRC, failed MIC: the front end has the (garbled) PDU in its buffer and decides what to do with it
                        buf.buffer[ 0 ] = r_.front_rx_header[ 0 ]; buf.buffer[ 1 ] = r_.front_rx_header[ 1 ];
                        for ( std::size_t i = 0; i != c_.inflight.payload.size(); ++i ) buf.buffer[ 2 + i ] = static_cast< std::uint8_t >( c_.inflight.payload[ i ] ^ 0xa5 );
                        trans = r_.buf_mic_failed( buf );
                    }
                    else
                        trans = r_.buf_next_transmit();
                    evts.error_occured = crc_error || !r_.real_front;       // (the nRF52 front end does not report a failed MIC as an error of the event)
                }
                else if ( buf.size == 0 || !fits )
                {
                    res_.probe( "receive_buffer_full" );
                    ++rx_full_streak_;
                    trans = r_.buf_next_transmit();
                }
                else
                {
                    buf.buffer[ 0 ] = static_cast< std::uint8_t >( c_.inflight.llid | ( c_.nesn ? 4 : 0 ) | ( c_.sn ? 8 : 0 ) | ( c_md ? 0x10 : 0 ) );
                    buf.buffer[ 1 ] = static_cast< std::uint8_t >( c_.inflight.payload.size() );
                    std::copy( c_.inflight.payload.begin(), c_.inflight.payload.end(), buf.buffer + 2 );
                    if ( !c_.inflight.payload.empty() ) res_.note( "  c->p llid %u len %zu first 0x%02x sn %d%s", c_.inflight.llid, c_.inflight.payload.size(), c_.inflight.payload[ 0 ], c_.sn, c_.inflight.delivered ? " (again)" : "" );
                    trans = r_.buf_received( buf );
                    rx_full_streak_ = 0;
                    last_valid_rx_local_us_ = rx_local;
                    if ( !c_.inflight.delivered )
                    {
                        c_.inflight.delivered = true;
                        // PDUs of the central that may end a procedure the peripheral started (an answer, a reject, the central's own version exchange, a
                        // connection update - Bluetoe has one response timer for all procedures -, a termination)
                        if ( c_.inflight.llid == 3 && !c_.inflight.payload.empty() )
                            switch ( c_.inflight.payload[ 0 ] ) { case 0x00: case 0x02: case 0x07: case 0x0c: case 0x0d: case 0x0f: case 0x10: case 0x11: case 0x16: case 0x18: proc_watch_ = false; last_proc_ending_pdu_local_us_ = r_.now_us; if ( c_.upd.active && c_.upd.acked && c_.inflight.tag != upd_pdu_tag_ ) proc_ending_pdu_waits_for_instant_ = true; break; default: break; }
                        if ( ll_.has_encryption ) enc_pdu_delivered( c_.inflight, pdu_enc );
                        // an instant based PDU that reaches the peripheral when its instant cannot be met any more
                        if ( c_.upd.tag > 0 && upd_pdu_tag_ != 0 && c_.inflight.tag == upd_pdu_tag_ )
                        {
                            tx_starved_since_update_ = false;
                            const std::uint64_t instant = upd_instant_;
                            // (the peripheral sees 16 bits: an instant more than 32767 events in the past looks like one in the future - with a latency of
                            // several hundred events a PDU can wait that long in the central's queue; nothing can be judged after that)
                            const bool aliased = instant <= c_.abs_counter && static_cast< std::uint16_t >( instant - c_.abs_counter ) != 0 && static_cast< std::uint16_t >( instant - c_.abs_counter ) < 32767;
                            if ( aliased ) { c_.sync_excused = true; control_checks_excused_ = true; res_.probe( "instant_aliased_into_the_future" ); }
                            const bool passed = instant <= c_.abs_counter && !aliased;
                            // a connection update for the very next event: the peripheral may still apply it (the transmit window starts after this event) or give up
                            // (the next event may already be scheduled) - applying is judged by the window rules, giving up must be Instant Passed
                            const bool borderline = upd_kind_ == 0 && instant == c_.abs_counter + 1;
                            if ( passed && late_update_kind_ < 0 ) { late_update_kind_ = upd_kind_; late_update_deadline_ = c_.abs_counter + 8 + c_.latency; control_checks_excused_ = true; res_.probe( "instant_already_passed_at_reception" ); }
                            if ( borderline ) { control_checks_excused_ = true; res_.probe( "instant_is_the_next_event_at_reception" ); }
                            if ( passed || borderline ) instant_passed_justified_ = true;
                        }
                    }
                }
                evts.last_received_not_empty = !c_.inflight.payload.empty();
                evts.last_received_had_more_data = c_md;
                first = false;
                if ( trans.size < 2 ) { violate( "C15", "no-transmit-buffer", "no-transmit-buffer", "radio got no PDU to transmit" ); stop_ = true; break; }
                const bytes rsp( trans.buffer, trans.buffer + 2 + trans.buffer[ 1 ] );
                evts.last_transmitted_not_empty = rsp[ 1 ] != 0;
                if ( getenv( "STACK_TRACE_AIR" ) ) res_.note( "    p->c hdr 0x%02x len %u (central nesn %d sn %d, sent empty %d)", rsp[ 0 ], rsp[ 1 ], c_.nesn, c_.sn, (int)c_.inflight.payload.empty() );
                t += 150 + pdu_duration_us( rsp[ 1 ] ) + 150;
                bool p_md = false;
                if ( fault == 3 ) { evts.unacknowledged_data = rsp[ 1 ] != 0; break; }
                if ( ll_.has_encryption )
                {
                    enc_check_outgoing( rsp );
                    const bool p_enc = r_.tx_enc && rsp[ 1 ] != 0;
                    const bool central_understands = rsp[ 1 ] == 0 || ( p_enc == c_.rx_enc && ( !p_enc || ( c_.has_key && r_.key_set && c_.key == r_.enc_key ) ) );
                    if ( !central_understands ) { res_.fault( "p2c_mic_failure" ); evts.unacknowledged_data = true; undecodable_rsp = true; break; }
                }
                c_.last_heard_ns = c_.anchor_ns;
                c_.heard_once = true;
                central_process( rsp, p_md );
                evts.unacknowledged_data = rsp[ 1 ] != 0;       // nothing acknowledged it yet
                more = c_.connected && ( c_md || p_md );
            }
            last_evt_unacked_ = evts.unacknowledged_data;
            if ( fault == 3 ) res_.note( "response lost" );
            r_.t0_us = rx_local;
            r_.now_us = t;
            if ( !established_ ) established_ = true;
            last_attended_abs_ = k_abs;
            // what obliges the peripheral to listen at the next event
            listen_reason_event_ = 0;
            must_listen_next_ = false;
            const unsigned f = ll_.latency_features;
            if ( ( f & 2 ) && evts.unacknowledged_data ) { must_listen_next_ = true; listen_reason_event_ = 1; }
            if ( ( f & 4 ) && evts.last_received_not_empty ) { must_listen_next_ = true; listen_reason_event_ = 2; }
            if ( ( f & 8 ) && evts.last_transmitted_not_empty ) { must_listen_next_ = true; listen_reason_event_ = 3; }
            if ( ( f & 16 ) && evts.last_received_had_more_data ) { must_listen_next_ = true; listen_reason_event_ = 4; }
            if ( f & 32 ) { must_listen_next_ = true; listen_reason_event_ = 5; }
            if ( evts.error_occured ) { must_listen_next_ = true; listen_reason_event_ = 6; }
            if ( c_.connected ) central_advance_event();
            r_.cb_end_event( evts );
            if ( ll_.has_encryption ) enc_after_event( fault == 0 && !undecodable_rsp && !c_.upd.active && late_update_kind_ < 0 && !raw_instant_pdu_sent_ );
            // (also right after the instant: the central has applied the update by now, the peripheral may still have the PDU in its receive ring)
            if ( ( c_.upd.active || late_update_kind_ >= 0 || ( c_.upd.tag > 0 && c_.abs_counter <= upd_instant_ + 1 ) ) && ll_.tx_allocatable && !ll_.tx_allocatable() ) { tx_starved_since_update_ = true; res_.probe( "no_transmit_buffer_while_instant_pending" ); }
            // ---- C27: the request in progress is answered within a few undisturbed events (a pending instant may hold answers back until the instant)
            if ( !expected_rsp_.empty() && current_acked_ && fault == 0 && !c_.upd.active && !control_checks_excused_ )
            {
                const expect_rsp& e = expected_rsp_.front();
                // (an event in which the peripheral sent data is progress on what the central asked for earlier: PDUs are handled in order,
                // the answer is due when the peripheral has nothing else to say)
                if ( e.none || !evts.last_transmitted_not_empty ) ++quiet_events_;
                if ( e.none && quiet_events_ >= 4 ) { if ( !e.allowed.empty() ) lapsed_optional_.push_back( e ); expected_rsp_.pop_front(); release_next_control(); }
                else if ( !e.none && quiet_events_ >= 10 && c_.connected && !local_disconnect_requested_ )
                {
                    violate( "C27", "request-unanswered", "request-unanswered opcode=" + std::to_string( e.opcode ) + " len=" + std::to_string( e.len ), "control PDU 0x%02x with %zu bytes got no answer within %u undisturbed connection events", e.opcode, e.len, quiet_events_ );
                    expected_rsp_.pop_front(); release_next_control();
                }
            }
            return;
        }
    }
    // nothing (valid) received inside the window
    r_.now_us = std::max( r_.now_us, we );
    must_listen_next_ = true; listen_reason_event_ = 7;
    r_.cb_timeout();
}

inline void world::central_process( const bytes& rsp, bool& more_from_peripheral )
{
    const bool r_nesn = ( rsp[ 0 ] & 4 ) != 0, r_sn = ( rsp[ 0 ] & 8 ) != 0;
    more_from_peripheral = ( rsp[ 0 ] & 0x10 ) != 0;
    if ( r_nesn != c_.sn )
    {
        // our PDU was acknowledged
        if ( c_.inflight.llid == 3 && c_.upd.active && !c_.upd.acked && !c_.inflight.payload.empty() && upd_pdu_tag_ != 0 && c_.inflight.tag == upd_pdu_tag_ )
        {
            c_.upd.acked = true;
            // too late for the peripheral to apply it in time?
            if ( c_.upd.instant <= c_.abs_counter + 1 ) c_.upd.legal = false;
        }
        if ( !expected_rsp_.empty() && c_.inflight.tag == expected_rsp_.front().tag ) { current_acked_ = true; quiet_events_ = 0; }
        c_.sn = !c_.sn;
        c_.has_inflight = false;
    }
    if ( r_sn == c_.nesn )
    {
        c_.nesn = !c_.nesn;
        if ( rsp[ 1 ] != 0 )
        {
            ll_pdu p;
            p.llid = rsp[ 0 ] & 3;
            p.payload.assign( rsp.begin() + 2, rsp.end() );
            c_.received.push_back( p );
            if ( p.llid == 3 ) central_handle_control( p );
            else res_.note( "central got data llid %u len %zu", p.llid, p.payload.size() );
        }
    }
}

inline void world::central_handle_control( const ll_pdu& p )
{
    const std::uint8_t opcode = p.payload[ 0 ];
    res_.note( "central got control 0x%02x len %zu", opcode, p.payload.size() );
    if ( ll_.has_encryption && enc_handle_control( p ) ) return;
    // peripheral initiated procedures
    if ( opcode == 0x0c && app_version_req_ && !( !expected_rsp_.empty() && current_acked_ && expected_rsp_.front().opcode == 0x0c
            && std::find( expected_rsp_.front().allowed.begin(), expected_rsp_.front().allowed.end(), 0x0c ) != expected_rsp_.front().allowed.end() ) )
    {
        app_version_req_ = false;
        if ( version_seen_from_peripheral_ ) violate( "C27", "second-version-ind", "second-version-ind", "a second LL_VERSION_IND was sent on this connection (the peripheral had answered the central's already)" );
        version_seen_from_peripheral_ = true;
        relax_version_expectations();
        res_.probe( "peripheral_initiated_version_exchange" );
        // the request is on the air: the central will not answer it (it answers nothing the peripheral starts)
        arm_procedure_watch();
        return;
    }
    if ( opcode == 0x0f && app_param_req_ ) { --app_param_req_; res_.probe( "peripheral_initiated_param_request" ); arm_procedure_watch(); return; }
    if ( opcode == 0x16 && app_phy_req_ ) { --app_phy_req_; return; }
    if ( opcode == 0x02 )
    {
        if ( !local_disconnect_requested_ )
            violate( "C27", "unexpected-terminate", "unexpected-terminate", "peripheral sent LL_TERMINATE_IND (reason 0x%02x) that nobody asked for", p.payload.size() > 1 ? p.payload[ 1 ] : 0 );
        c_.connected = false;
        return;
    }
    // the answer to the request in progress?
    // (a LL_UNKNOWN_RSP names the PDU it answers: the request in progress if it names it, an optional answer that was given up if it names that,
    // the request in progress again if any answer will do for it)
    bool answers_current = !expected_rsp_.empty() && current_acked_
        && std::find( expected_rsp_.front().allowed.begin(), expected_rsp_.front().allowed.end(), opcode ) != expected_rsp_.front().allowed.end()
        && ( opcode != 0x07 || expected_rsp_.front().opcode >= 0xfe || ( p.payload.size() == 2 && p.payload[ 1 ] == expected_rsp_.front().opcode ) );
    if ( answers_current && opcode == 0x07 && p.payload.size() == 2 && !expected_rsp_.front().payload.empty() && p.payload[ 1 ] != expected_rsp_.front().payload[ 0 ] )
        for ( const auto& l : lapsed_optional_ )
            if ( std::find( l.allowed.begin(), l.allowed.end(), 0x07 ) != l.allowed.end() && p.payload[ 1 ] == l.payload[ 0 ] ) answers_current = false;
    // an optional answer that took its time (the peripheral's transmit queue was busy)
    for ( auto l = lapsed_optional_.begin(); !answers_current && l != lapsed_optional_.end(); ++l )
        if ( std::find( l->allowed.begin(), l->allowed.end(), opcode ) != l->allowed.end() && ( opcode != 0x07 || ( p.payload.size() == 2 && p.payload[ 1 ] == l->payload[ 0 ] ) ) )
        {
            lapsed_optional_.erase( l );
            return;
        }
    // an optional answer that this PDU is not
    if ( !expected_rsp_.empty() && expected_rsp_.front().none
         && std::find( expected_rsp_.front().allowed.begin(), expected_rsp_.front().allowed.end(), opcode ) == expected_rsp_.front().allowed.end() ) { expected_rsp_.pop_front(); release_next_control(); }
    if ( control_checks_excused_ ) return;
    if ( expected_rsp_.empty() || !current_acked_ )
    {
        violate( "C27", "unrequested-response", "unrequested-response opcode=" + std::to_string( opcode ), "peripheral sent control PDU 0x%02x although every request is answered (responses and rejects must not be answered)", opcode );
        return;
    }
    const expect_rsp e = expected_rsp_.front();
    // the answer to an earlier request may still be on its way; a PDU that wants no answer in front was skipped above
    if ( std::find( e.allowed.begin(), e.allowed.end(), opcode ) == e.allowed.end() )
    {
        violate( "C27", "wrong-response", "wrong-response request=" + std::to_string( e.opcode ) + " len=" + std::to_string( e.len ) + " response=" + std::to_string( opcode ), "control PDU 0x%02x with %zu bytes was answered with 0x%02x", e.opcode, e.len, opcode );
        expected_rsp_.pop_front();
        release_next_control();
        return;
    }
    expected_rsp_.pop_front();
    release_next_control();
    ++control_answered;
    if ( opcode == 0x07 && ( p.payload.size() != 2 || ( e.opcode < 0xfe && p.payload[ 1 ] != e.opcode ) ) )
        violate( "C27", "unknown-rsp-content", "unknown-rsp-content", "LL_UNKNOWN_RSP %s does not name the request 0x%02x", sim::hex( p.payload ).c_str(), e.opcode );
    if ( opcode == 0x09 )
    {
        // intersected feature set in the first byte
        const std::uint8_t theirs = e.payload.size() > 1 ? e.payload[ 1 ] : 0;
        if ( p.payload.size() != 9 || ( p.payload[ 1 ] & ~theirs ) != 0 )
            violate( "C27", "feature-rsp-content", "feature-rsp-content", "LL_FEATURE_RSP %s is not the intersection with the requested features 0x%02x", sim::hex( p.payload ).c_str(), theirs );
    }
    if ( opcode == 0x0c ) { if ( version_seen_from_peripheral_ ) violate( "C27", "second-version-ind", "second-version-ind", "a second LL_VERSION_IND was sent on this connection" ); version_seen_from_peripheral_ = true; }
}

// ------------------------------------------------------------------------------------------------ link encryption (C28)
inline void world::enc_op( const sim::Op& op )
{
    // a0: 0 start procedure with a bonded key, 1 the same but the central holds another key, 2 LL_ENC_REQ for an unknown EDIV/Rand, 3 LL_START_ENC_RSP out of the blue,
    //     4 pause procedure, 5 LL_PAUSE_ENC_RSP out of the blue, 6 read the protected value, 7 write the protected value
    // a1: selects the bond / 0 as the encryption state says, 1 forced plaintext, 2 forced encrypted
    const int kind = static_cast< int >( ( ( op.arg( 0 ) % 8 ) + 8 ) % 8 );
    const int force = static_cast< int >( ( ( op.arg( 1 ) % 3 ) + 3 ) % 3 );
    // the encryption PDUs do not go through the request / response book keeping of C27
    if ( kind < 6 ) control_checks_excused_ = true;
    auto push_control = [&]( bytes payload, int enc ) { ll_pdu p; p.llid = 3; p.payload = std::move( payload ); p.tag = next_tag_++; p.enc = enc; c_.txq.push_back( p ); };
    switch ( kind )
    {
    case 0: case 1: case 2: {
        bytes p{ 0x03 };
        std::uint16_t ediv; std::uint64_t rand;
        if ( kind == 2 || ll_.bonds.empty() ) { ediv = static_cast< std::uint16_t >( 0x4000 + op.arg( 1 ) ); rand = 0x0102030405060708ull + static_cast< std::uint64_t >( op.arg( 2 ) ); c_.has_key = false; }
        else
        {
            const auto& b = ll_.bonds[ static_cast< std::size_t >( ( ( op.arg( 1 ) % static_cast< std::int64_t >( ll_.bonds.size() ) ) + static_cast< std::int64_t >( ll_.bonds.size() ) ) % static_cast< std::int64_t >( ll_.bonds.size() ) ) ];
            ediv = b.ediv; rand = b.rand; c_.key = b.key; c_.has_key = true;
            if ( kind == 1 ) c_.key[ 3 ] ^= 0x40;
        }
        for ( int i = 0; i != 8; ++i ) p.push_back( static_cast< std::uint8_t >( rand >> ( 8 * i ) ) );
        put16( p, ediv );
        for ( int i = 0; i != 12; ++i ) p.push_back( static_cast< std::uint8_t >( 0x70 + i ) );      // SKDm, IVm
        push_control( p, -1 );
        c_.enc_proc = 1;
        res_.note( "central starts encryption (%s)", kind == 0 ? "bonded key" : kind == 1 ? "bonded EDIV/Rand, wrong key" : "unknown EDIV/Rand" );
        break; }
    case 3: push_control( bytes{ 0x06 }, force == 0 ? -1 : force - 1 ); res_.note( "central sends LL_START_ENC_RSP out of order" ); break;
    case 4: push_control( bytes{ 0x0a }, -1 ); c_.enc_proc = 10; res_.note( "central pauses encryption" ); break;
    case 5: push_control( bytes{ 0x0b }, force == 0 ? -1 : force - 1 ); res_.note( "central sends LL_PAUSE_ENC_RSP out of order" ); break;
    case 6: {
        bytes f; put16( f, 3 ); put16( f, 4 ); f.push_back( 0x0a ); put16( f, ll_.secret_handle );
        ll_pdu p; p.llid = 2; p.payload = f; c_.txq.push_back( p );
        break; }
    default: {
        bytes f; put16( f, 3 + static_cast< unsigned >( ll_.secret_size ) ); put16( f, 4 ); f.push_back( 0x12 ); put16( f, ll_.secret_handle );
        ++write_seq_;
        for ( std::size_t i = 0; i != ll_.secret_size; ++i ) f.push_back( static_cast< std::uint8_t >( 0x80 + ( ( write_seq_ * 7 + i * 13 ) & 0x7f ) ) );
        f[ 7 ] = static_cast< std::uint8_t >( write_seq_ ); f[ 8 ] = static_cast< std::uint8_t >( 0xe0 | ( write_seq_ >> 8 ) );
        ll_pdu p; p.llid = 2; p.payload = f; c_.txq.push_back( p );
        break; }
    }
}

inline bool world::enc_handle_control( const ll_pdu& p )
{
    const std::uint8_t opcode = p.payload[ 0 ];
    const std::size_t  len    = p.payload.size();
    auto push_control = [&]( bytes payload, int enc ) { ll_pdu q; q.llid = 3; q.payload = std::move( payload ); q.tag = next_tag_++; q.enc = enc; c_.txq.push_front( q ); };
    if ( opcode == 0x04 && len == 13 )
    {
        if ( c_.enc_proc == 1 ) c_.enc_proc = 2;
        if ( !enc_delivered_.empty() ) { enc_batch_.push_back( enc_delivered_.front() ); enc_delivered_.pop_front(); }
        return true;
    }
    if ( opcode == 0x05 && len == 1 )
    {
        if ( std::find( enc_batch_.begin(), enc_batch_.end(), true ) == enc_batch_.end() )
            violate( "C28", "start-enc-req-without-key", !enc_batch_.empty() ? "start-enc-req-without-key unknown-ediv-rand" : "start-enc-req-without-key no-enc-req",
                     "the peripheral sent LL_START_ENC_REQ although %s", !enc_batch_.empty() ? "neither security manager nor bond data base holds a key for the EDIV/Rand of any LL_ENC_REQ it has answered with LL_ENC_RSP since its last verdict"
                     : "no LL_ENC_REQ waits for its verdict" );
        else
            start_enc_req_seen_ = true;
        enc_batch_.clear();
        reject_due_in_ = enc_only_unknown_pending() ? 10 + static_cast< int >( c_.latency ) : -1;
        if ( c_.enc_proc == 1 || c_.enc_proc == 2 ) { c_.enc_proc = 3; c_.tx_enc = c_.rx_enc = true; push_control( bytes{ 0x06 }, -1 ); }
        return true;
    }
    if ( opcode == 0x06 && len == 1 )
    {
        if ( c_.enc_proc == 3 ) { c_.enc_proc = 0; ++enc_completed; res_.probe( "encryption_started" ); }
        return true;
    }
    if ( ( ( opcode == 0x0d && len == 2 ) || ( opcode == 0x11 && len == 3 && p.payload[ 1 ] == 0x03 ) ) && ( c_.enc_proc == 1 || c_.enc_proc == 2 || !enc_delivered_.empty() || !enc_batch_.empty() ) )
    {
        if ( c_.enc_proc == 1 || c_.enc_proc == 2 ) c_.enc_proc = 0;
        ++enc_rejected;
        res_.probe( std::find( enc_batch_.begin(), enc_batch_.end(), true ) != enc_batch_.end() ? "encryption_with_known_key_rejected" : "encryption_with_unknown_key_rejected" );
        enc_batch_.clear();
        reject_due_in_ = enc_only_unknown_pending() ? 10 + static_cast< int >( c_.latency ) : -1;
        return true;
    }
    if ( opcode == 0x0b && len == 1 )
    {
        if ( c_.enc_proc == 10 ) { c_.enc_proc = 0; c_.tx_enc = c_.rx_enc = false; push_control( bytes{ 0x0b }, 0 ); res_.probe( "encryption_paused" ); }
        return true;
    }
    return false;
}

inline void world::enc_pdu_delivered( const ll_pdu& p, bool pdu_enc )
{
    if ( p.llid == 3 )
    {
        const std::uint8_t opcode = p.payload[ 0 ];
        const std::size_t  len    = p.payload.size();
        if ( opcode == 0x03 && len == 23 )
        {
            std::uint64_t rand = 0;
            for ( int i = 0; i != 8; ++i ) rand |= static_cast< std::uint64_t >( p.payload[ 1 + static_cast< std::size_t >( i ) ] ) << ( 8 * i );
            const std::uint16_t ediv = rd16( &p.payload[ 9 ] );
            bool known = false;
            for ( const auto& b : ll_.bonds ) if ( b.ediv == ediv && b.rand == rand ) known = true;
            enc_delivered_.push_back( known );
            start_committed_ = false;      // a new procedure
            reject_due_in_ = enc_known_pending() ? -1 : 10 + static_cast< int >( c_.latency );
        }
        else if ( opcode == 0x06 && len == 1 )
        {
            // (the peripheral switches its transmitter to encryption when it handles this PDU, after the exchange that delivers it)
            // it completes the procedure if the peripheral has committed its LL_START_ENC_REQ (for a request with a known key) before
            // (the radio is told to receive encrypted at that moment; whether this PDU can be decoded at all is the air's business)
            if ( start_committed_ ) { start_committed_ = false; if ( !model_enc_ ) ++enc_legit_starts_; model_enc_ = model_enc_seen_ = true; enc_started_this_event_ = true; start_enc_req_seen_ = false; }
        }
        else if ( ( opcode == 0x0a || opcode == 0x0b ) && len == 1 )
            model_enc_ = false;
    }
    else if ( p.llid == 2 && p.payload.size() >= 5 && rd16( &p.payload[ 2 ] ) == 4 && rd16( &p.payload[ 0 ] ) + 4u == p.payload.size() )
    {
        // the server answers ATT PDUs in the order they arrive (everything but a confirmation or a write command gets an answer)
        const std::uint8_t att = p.payload[ 4 ];
        if ( att != 0x1e && att != 0x52 && att != 0xd2 ) att_req_while_enc_.push_back( model_enc_ );
        if ( p.payload[ 4 ] == 0x12 && p.payload.size() >= 7 && rd16( &p.payload[ 5 ] ) == ll_.secret_handle && model_enc_ ) ++legit_secret_writes_;
    }
}

inline void world::enc_check_outgoing( const bytes& rsp )
{
    if ( !r_.tx_enc ) tx_session_legit_ = false;
    // retransmissions (same sequence number as the PDU sent before) are not looked at twice
    const bool sn = ( rsp[ 0 ] & 8 ) != 0;
    const bool is_new = !att_rsp_seen_ || sn != att_rsp_sn_;
    att_rsp_seen_ = true; att_rsp_sn_ = sn;
    if ( !is_new ) return;

    if ( rsp[ 1 ] == 0 || ( rsp[ 0 ] & 3 ) != 2 || rsp.size() < 7 || rd16( &rsp[ 4 ] ) != 4 ) return;
    // a new ATT PDU of the server: an answer unless it is a notification or indication
    const std::uint8_t att = rsp[ 6 ];
    if ( att == 0x1b || att == 0x1d ) return;
    bool request_while_enc = model_enc_;
    if ( !att_req_while_enc_.empty() ) { request_while_enc = att_req_while_enc_.front(); att_req_while_enc_.pop_front(); }
    if ( !ll_.secret || rsp.size() < 2 + ll_.secret_size || std::search( rsp.begin() + 2, rsp.end(), ll_.secret, ll_.secret + ll_.secret_size ) == rsp.end() ) return;
    res_.probe( "protected_value_read" );
    // (a value that was read over the encrypted link and leaves the transmit ring after a local disconnect() switched the encryption off is outside the property; counted only)
    if ( !r_.tx_enc ) res_.probe( "protected_value_read_encrypted_but_sent_after_encryption_was_switched_off" );
    if ( !request_while_enc )
        violate( "C28", "protected-value-exposed", "protected-value-exposed", "the peripheral answered with %s, which contains the value of the characteristic that requires encryption, although the request arrived while the link "
                 "was not encrypted (no encryption start procedure with a supplied key completed, or paused since)", sim::hex( rsp ).c_str() );
}

inline void world::enc_after_event( bool undisturbed )
{
    // callbacks: encrypted is only reported after a proper procedure
    // (the link layer may handle the PDUs that complete a procedure much later than they were received, e.g. behind a pending instant:
    // every report "encrypted" needs a completed procedure of its own, whenever that was)
    for ( ; changed_checked_ < rec_.changed_encrypted.size(); ++changed_checked_ )
    {
        const bool now = rec_.changed_encrypted[ changed_checked_ ];
        const bool turned_on = now && !last_reported_enc_;
        last_reported_enc_ = now;
        // (after a local disconnect() the termination procedure is all that is left; what a central does to the encryption meanwhile is not judged)
        if ( turned_on && ++enc_reported_ > enc_legit_starts_ && !local_disconnect_requested_ )
            violate( "C28", "reported-encrypted", "reported-encrypted", "ll_connection_changed() reports the link as encrypted, but no encryption start procedure with a supplied key completed (LL_ENC_REQ with a known key, LL_START_ENC_REQ from the peripheral, encrypted LL_START_ENC_RSP from the central)" );
    }
    model_enc_seen_ = model_enc_;
    // the receiver is switched to encryption together with LL_START_ENC_REQ: legitimate if a request with a known key waits for its answer
    if ( r_.rx_enc_starts != prev_rx_enc_starts_ ) { prev_rx_enc_starts_ = r_.rx_enc_starts; start_committed_ = enc_known_pending(); }
    if ( r_.rx_enc && !prev_rx_enc_ ) rx_session_legit_ = enc_known_pending();
    if ( !r_.rx_enc ) rx_session_legit_ = false;
    prev_rx_enc_ = r_.rx_enc;
    if ( enc_started_this_event_ && r_.tx_enc ) { tx_session_legit_ = true; enc_started_this_event_ = false; }
    // the protected value only changes by a write that arrived over the encrypted link
    if ( ll_.secret && !std::equal( secret_snapshot_.begin(), secret_snapshot_.end(), ll_.secret ) )
    {
        res_.probe( "protected_value_written" );
        if ( legit_secret_writes_ ) --legit_secret_writes_;
        else violate( "C28", "protected-value-written", "protected-value-written", "the value of the characteristic that requires encryption changed to %s by a write that did not arrive over an encrypted link", sim::hex( ll_.secret, ll_.secret_size ).c_str() );
        secret_snapshot_.assign( ll_.secret, ll_.secret + ll_.secret_size );
    }
    // an encryption request for an unknown key is rejected
    if ( local_disconnect_requested_ ) reject_due_in_ = -1;      // the termination procedure is all that is left
    if ( reject_due_in_ > 0 && undisturbed && ( !ll_.tx_allocatable || ll_.tx_allocatable() ) && --reject_due_in_ == 0 )
    {
        violate( "C28", "unknown-key-not-rejected", "unknown-key-not-rejected", "LL_ENC_REQ for an EDIV/Rand nobody holds a key for was neither answered with LL_REJECT_IND nor LL_REJECT_EXT_IND within %u undisturbed connection events", 10 + c_.latency );
        reject_due_in_ = -1;
    }
}

inline void world::do_app( const sim::Op& op )
{
    const int kind = static_cast< int >( ( ( op.arg( 0 ) % 12 ) + 12 ) % 12 );
    // the application acts some time after the last radio activity, but before the next one starts
    const std::int64_t delay = std::max< std::int64_t >( 0, op.arg( 3 ) );
    std::int64_t limit = r_.now_us + delay;
    if ( r_.pending == radio_state::connection_event ) limit = std::min( limit, r_.t0_us + static_cast< std::int64_t >( r_.start_us ) - 1 );
    if ( r_.pending == radio_state::advertising ) limit = std::min( limit, r_.t0_us + static_cast< std::int64_t >( r_.when_us ) - 1 );
    r_.now_us = std::max( r_.now_us, limit );
    const std::int64_t a = op.arg( 1 ), b = op.arg( 2 );
    bool result = false;
    snapshot_adv_schedule();
    switch ( kind )
    {
    case 0: case 1: result = ll_.app( kind, a, b ); break;                          // notify / indicate
    case 2:                                                                           // disconnect
        if ( p_connected_ && established_ ) { result = ll_.app( 2, a, b ); local_disconnect_requested_ = true; expected_close_reason_ = 0x16; }
        break;
    case 3: if ( p_connected_ && established_ ) { result = ll_.app( 3, a, b ); if ( result ) { ++app_param_req_; last_app_procedure_call_local_us_ = r_.now_us; if ( proc_watch_ ) proc_watch_since_local_us_ = r_.now_us;   /* a request the link layer accepts while one is open starts its response timer anew */ if ( app_procedure_started_local_us_ < 0 ) app_procedure_started_local_us_ = r_.now_us; } } break;
    case 4: if ( p_connected_ && established_ ) { result = ll_.app( 4, a, b ); if ( result ) ++app_phy_req_; } break;
    case 5: if ( p_connected_ && established_ ) { result = ll_.app( 5, a, b ); if ( result ) { app_version_req_ = true; relax_version_expectations(); last_app_procedure_call_local_us_ = r_.now_us; if ( proc_watch_ ) proc_watch_since_local_us_ = r_.now_us; if ( app_procedure_started_local_us_ < 0 ) app_procedure_started_local_us_ = r_.now_us; } } break;
    case 6:                                                                           // white list
        if ( ll_.has_white_list )
        {
            const unsigned who = static_cast< unsigned >( ( ( a % 12 ) + 12 ) % 12 );
            const int what = static_cast< int >( ( ( b % 5 ) + 5 ) % 5 );
            result = ll_.app( 6, who, what );
            switch ( what )
            {
            case 0: if ( white_list_.count( who ) || white_list_.size() < ll_.white_list_size ) white_list_.insert( who ); break;
            case 1: white_list_.erase( who ); break;
            case 2: white_list_.clear(); break;
            case 3: wl_conn_filter_ = ( who & 1 ) != 0; break;
            case 4: wl_scan_filter_ = ( who & 1 ) != 0; break;
            }
        }
        break;
    case 7:                                                                           // advertising channel map
        if ( ll_.variable_adv_map )
        {
            const unsigned ch = 37 + static_cast< unsigned >( ( ( a % 3 ) + 3 ) % 3 );
            const bool add = ( b & 1 ) != 0;
            const unsigned nm = add ? ( adv_map_ | ( 1u << ( ch - 37 ) ) ) : ( adv_map_ & ~( 1u << ( ch - 37 ) ) );
            if ( nm != 0 ) { result = ll_.app( 7, ch, add ); adv_map_ = nm; event_map_changed_ = true; map_op_pending_ = true; }
        }
        break;
    case 8:                                                                           // start / stop advertising
        if ( ll_.no_auto_start )
        {
            const int what = static_cast< int >( ( ( a % 3 ) + 3 ) % 3 );
            const bool pdu_in_radio = r_.pending == radio_state::advertising;
            result = ll_.app( 8, what, b );
            // stopping, or starting when stopped, ends the current advertising event (a start while advertising only sets the count).
            // Bluetoe is stopped from the moment the last counted PDU is handed to the radio
            const bool stopped = !adv_enabled_ || ( adv_count_left_ == 1 && pdu_in_radio );
            if ( what == 1 || stopped ) { event_channels_.clear(); last_event_start_us_ = -1; }
            if ( what == 0 ) { adv_enabled_ = true; adv_count_left_ = -1; }
            else if ( what == 1 ) { adv_enabled_ = false; adv_count_left_ = -1; }
            else { adv_enabled_ = true; adv_count_left_ = static_cast< int >( 1 + ( ( b % 4 ) + 4 ) % 4 ) + ( pdu_in_radio && !stopped ? 1 : 0 ); }   // a PDU the radio already holds is not counted
        }
        break;
    case 9:                                                                           // change the advertising type (takes effect with the next advertising PDU that is scheduled)
        result = ll_.app( 9, a, b );
        if ( result ) res_.probe( "advertising_type_changed" );
        if ( result && ( ( a % 4 ) + 4 ) % 4 == 1 ) directed_target_ = static_cast< int >( ( ( b % 12 ) + 12 ) % 12 );
        break;
    default: break;
    }
    res_.note( "app %d(%lld,%lld) -> %d", kind, (long long)a, (long long)b, result );
    snapshot_adv_schedule();
}

inline void world::after_callbacks( const char* )
{
    snapshot_adv_schedule();
    // ---- C29: lifecycle callbacks, checked as they arrive
    for ( ; cb_checked_ < rec_.log.size(); ++cb_checked_ )
    {
        const char e = rec_.log[ cb_checked_ ];
        const char prev_state = open_connections_in_log_ == 0 ? 'n' : ( open_connections_in_log_ == 1 ? 'r' : 'e' );
        bool ok = true;
        switch ( e )
        {
        case 'R': ok = prev_state == 'n'; open_connections_in_log_ = 1; break;
        case 'E': ok = prev_state == 'r'; open_connections_in_log_ = 2; break;
        case 'T': ok = prev_state == 'r'; open_connections_in_log_ = 0; break;
        case 'X': ok = prev_state == 'e'; open_connections_in_log_ = 0; break;
        default:  ok = prev_state == 'e'; break;
        }
        if ( !ok )
            violate( "C29", "callback-order", std::string( "callback-order " ) + e + " in-state " + prev_state, "callback '%c' in state '%c' (log so far: %s)", e, prev_state, rec_.log.substr( 0, cb_checked_ + 1 ).c_str() );
        if ( e == 'X' )
        {
            const int reason = rec_.closed_reasons.empty() ? -1 : rec_.closed_reasons.back();
            // supervision timeout only after the timeout really elapsed
            if ( remote_terminate_reasons_.count( reason ) )
            {
                // the reason the central gave in its LL_TERMINATE_IND, whatever it is
                res_.probe( "closed_by_remote_terminate" );
            }
            else if ( reason == 0x08 )
            {
                const std::int64_t silent = r_.now_us - last_valid_rx_local_us_;
                std::int64_t need = static_cast< std::int64_t >( c_.timeout_us );
                // a connection update the peripheral got but the central did not live to apply: the peripheral is right to use its timeout from the instant on
                if ( c_.upd.kind == 0 && c_.upd.tag > 0 && ( c_.upd.active || !c_.connected ) ) need = std::min< std::int64_t >( need, c_.upd.timeout_us );
                // nothing was received since the central applied a connection update: the old supervision timeout may have elapsed before the instant
                if ( update_applied_local_us_ >= 0 && last_valid_rx_local_us_ < update_applied_local_us_ ) need = std::min< std::int64_t >( need, timeout_before_update_us_ );
                // the peripheral closes when the event at which the timeout is reached cannot be met: that is known at the start of that event's receive window,
                // which is opened early by the combined clock accuracy over the silent time (neither side can measure the timeout more precisely than that)
                const std::int64_t clock_tolerance = silent * static_cast< std::int64_t >( ll_.own_sca_ppm + c_.sca_ppm ) / 1000000;
                if ( c_.timeout_us && silent + 2000 + clock_tolerance < need && !c_.sync_excused )
                    violate( "C22", "early-supervision-timeout", "early-supervision-timeout", "connection closed for supervision timeout after %lld us without a valid packet, the timeout is %lld us", (long long)silent, (long long)need );
                if ( expected_close_reason_ >= 0 && !c_.sync_excused && air_fault_left_ == 0 && false )
                    violate( "C29", "close-reason", "close-reason", "closed with reason 0x08, expected 0x%02x", expected_close_reason_ );
            }
            else if ( reason == 0x22 )
            {
                const std::int64_t since = app_procedure_started_local_us_ < 0 ? -1 : r_.now_us - app_procedure_started_local_us_;
                if ( local_disconnect_requested_ )
                {
                    // the termination procedure is bounded by the supervision timeout, not by 40 s
                }
                else if ( since < 0 )
                    violate( "C27", "procedure-timeout-without-procedure", "procedure-timeout-without-procedure", "connection closed with LL Response Timeout although no peripheral initiated procedure was running" );
                // (the link layer counts in connection events: the request is queued somewhere inside an interval, the timer is charged with whole
                // intervals and the decision falls at the event before the one that would exceed it)
                // plus one per mille of the 40 s: the timer is charged with the time between events as the link layer sees it
                else if ( since + static_cast< std::int64_t >( c_.interval_us ) * ( c_.latency + 4 ) + 40000 < 40000000 )
                    violate( "C27", "procedure-timeout-early", "procedure-timeout-early", "connection closed with LL Response Timeout %lld us after the procedure started (40 s required)", (long long)since );
            }
            else if ( reason == 0x28 )
            {
                res_.probe( "closed_instant_passed" );
                late_update_kind_ = -1;
                if ( !c_.upd.active && !instants_applied && c_.upd.tag == 0 )
                    violate( "C21", "instant-passed-without-instant", "instant-passed-without-instant", "connection closed with Instant Passed although no instant based procedure was started" );
                // the instant of an honest update was still ahead when the PDU arrived: giving the connection up is not "from the instant on"
                // (judged for the only update of a connection with an orderly central: an earlier update may have been handled late for reasons of its own)
                else if ( !instant_passed_justified_ && !raw_instant_pdu_sent_ && c_.upd.tag > 0 && c_.upd.legal && !c_.sync_excused && !control_checks_excused_ && updates_on_connection_ == 1 )
                    violate( "C21", "instant-passed-premature", "instant-passed-premature kind=" + std::to_string( c_.upd.kind ), "connection closed with Instant Passed although the update (kind %d, instant %llu) reached the peripheral before its instant (event %llu now)",
                             c_.upd.kind, (unsigned long long)upd_instant_, (unsigned long long)c_.abs_counter );
            }
        }
    }
    // ---- the link layer left the connection: there must have been a closing callback
    const bool ll_connected_now = r_.pending == radio_state::connection_event;
    if ( p_connected_ && !ll_connected_now && r_.pending == radio_state::advertising )
    {
        if ( open_connections_in_log_ != 0 )
            violate( "C29", "callback-lost", open_connections_in_log_ == 1 ? "callback-lost attempt-timeout-or-established" : "callback-lost closed", "the link layer is advertising again but the connection was never reported closed (log: %s)", rec_.log.c_str() );
        open_connections_in_log_ = 0;
        p_connected_ = false;
        c_.connected = false;
        c_.txq.clear(); c_.has_inflight = false;
        adv_map_at_schedule_ = adv_map_;
    }
    if ( p_connected_ && r_.pending == radio_state::nothing && !ll_connected_now && ll_.no_auto_start )
    {
        // disconnected with advertising switched off
        if ( open_connections_in_log_ == 0 ) { p_connected_ = false; c_.connected = false; c_.txq.clear(); c_.has_inflight = false; }
    }
}

}

#endif
