// lat_sim - the peripheral latency book keeping (peripheral_latency.hpp: plan_next_connection_event, plan_next_connection_event_after_timeout,
// reschedule_on_pending_data / peripheral_latency_move_connection_event) driven directly (third harness of C23)
//
// Parties: the link layer (reports the outcome of connection events: listen conditions, timeouts, pending instants of control procedures,
// pins an event whose parameters are applied), the application (new data becomes pending while the peripheral sleeps), the radio (lets a
// planned event go or refuses, says how much time has passed since the anchor), a new connection.  stack_sim reaches these functions only
// through the link layer, which pins every event planned for an instant; here every sequence is possible.
//
// Oracle (constraints, not a re-statement): the planned event is 1 .. latency + 1 events after the last one that took place; exactly 1 when a
// configured listen condition (or an error) held; never behind a pending instant; a pull back leaves it in the future of the elapsed time, at
// least one event after the last, not later than planned; event counter, channel index (mod 37) and time_since_last_event always move by the
// same number of events.
#include <iterator>
#include <array>
#include <algorithm>
#include <cstring>
#include <cassert>

#include <bluetoe/meta_tools.hpp>
#include <bluetoe/delta_time.hpp>
#include <bluetoe/channel_map.hpp>
#include <bluetoe/connection_events.hpp>
#include <bluetoe/peripheral_latency.hpp>

#include "../sim/sim.hpp"

namespace {

namespace ll = bluetoe::link_layer;
using ll::delta_time;

enum { op_event, op_timeout, op_pending_data, op_pin, op_new_connection, op_count };
// features: bit0 pending transmit data, bit1 unacknowledged data, bit2 last received not empty, bit3 last transmitted not empty, bit4 more data, bit5 always
enum { f_pending = 1, f_unack = 2, f_rx = 4, f_tx = 8, f_md = 16, f_always = 32 };

struct radio_stub
{
    bool        permit = true;
    delta_time  elapsed;
    unsigned    calls = 0;
    std::pair< bool, delta_time > disarm_connection_event() { ++calls; return { permit, permit ? elapsed : delta_time() }; }
};

template < class Config >
void run( const sim::Plan& plan, sim::Result& res, unsigned features, const char* name )
{
    using state_t = ll::details::peripheral_latency_state< Config >;
    state_t state;
    state.reset_connection_state();
    radio_stub radio;

    const std::uint32_t interval_us = static_cast< std::uint32_t >( 7500 + 1250 * ( ( ( plan.knob( "interval" ) % 3195 ) + 3195 ) % 3195 ) );
    const delta_time interval( interval_us );
    unsigned latency = static_cast< unsigned >( ( ( plan.knob( "latency" ) % 500 ) + 500 ) % 500 );
    res.note( "config %s interval %u us latency %u", name, interval_us, latency );

    // ---- model
    std::uint64_t last_event = 0;       // number of the last connection event that took place (or timed out)
    std::uint64_t anchor = 0;           // number of the last connection event that took place (time_since_last_event and the radio count from there)
    std::uint64_t planned = 0;          // number of the planned event
    unsigned      last_channel = 0;     // channel index of last_event
    bool          pinned = true;        // the first event of a connection cannot be moved
    bool          moved_once = false;
    unsigned n_moves = 0, n_clamped = 0, n_events = 0;

    auto check_consistency = [&]( long idx, const char* after ) {
        const std::uint64_t d = planned - last_event;
        if ( state.connection_event_counter() != static_cast< std::uint16_t >( planned ) )
            res.violate( "C23", "event-counter", std::string( "event-counter " ) + after, idx, "%s: %s: event counter is %u, %llu events after the last one would be %u", name, after, state.connection_event_counter(),
                         (unsigned long long)d, static_cast< std::uint16_t >( planned ) );
        if ( state.current_channel_index() != ( last_channel + d ) % 37 )
            res.violate( "C23", "channel-index", std::string( "channel-index " ) + after, idx, "%s: %s: channel index is %u; the event counter moved by %llu from an event with index %u, that gives %llu", name, after,
                         state.current_channel_index(), (unsigned long long)d, last_channel, (unsigned long long)( ( last_channel + d ) % 37 ) );
        const std::uint64_t da = planned - anchor;
        if ( state.time_since_last_event().usec() != da * interval_us )
            res.violate( "C23", "time-since-last-event", std::string( "time-since-last-event " ) + after, idx, "%s: %s: time_since_last_event is %u us, %llu intervals of %u us since the last event that took place are %llu us", name, after,
                         state.time_since_last_event().usec(), (unsigned long long)da, interval_us, (unsigned long long)( da * interval_us ) );
    };

    long idx = -1;
    for ( const auto& op : plan.ops )
    {
        ++idx;
        if ( !res.violations.empty() ) break;
        switch ( ( ( op.kind % op_count ) + op_count ) % op_count )
        {
        case op_event: {
            // the planned event took place: a0 event bits (unack, rx, tx, md, pending, error), a1 pending instant (0 none, else distance from this event), a2 new latency or -1
            ++n_events;
            last_event = anchor = planned;
            last_channel = state.current_channel_index();
            if ( op.arg( 2 ) >= 0 ) latency = static_cast< unsigned >( op.arg( 2 ) % 500 );
            const unsigned bits = static_cast< unsigned >( op.arg( 0 ) ) & 0x3f;
            const ll::connection_event_events evts( ( bits & 1 ) != 0, ( bits & 2 ) != 0, ( bits & 4 ) != 0, ( bits & 8 ) != 0, ( bits & 16 ) != 0, ( bits & 32 ) != 0 );
            const std::uint64_t dist = static_cast< std::uint64_t >( std::max< std::int64_t >( 0, op.arg( 1 ) ) );
            const std::pair< bool, std::uint16_t > instant{ dist != 0, static_cast< std::uint16_t >( last_event + dist ) };
            state.plan_next_connection_event( static_cast< std::uint16_t >( latency ), evts, interval, instant );
            const bool condition = ( ( features & f_unack ) && ( bits & 1 ) ) || ( ( features & f_rx ) && ( bits & 2 ) ) || ( ( features & f_tx ) && ( bits & 4 ) ) || ( ( features & f_md ) && ( bits & 8 ) )
                                || ( ( features & f_pending ) && ( bits & 16 ) ) || ( features & f_always ) || ( bits & 32 );
            const std::uint16_t d16 = static_cast< std::uint16_t >( state.connection_event_counter() - static_cast< std::uint16_t >( last_event ) );
            res.note( "event %llu (bits 0x%02x, instant %s%llu, latency %u) -> next in %u", (unsigned long long)last_event, bits, dist ? "+" : "none ", (unsigned long long)dist, latency, d16 );
            if ( d16 == 0 || d16 > latency + 1 )
                res.violate( "C23", "latency-exceeded", d16 == 0 ? "planned-distance zero" : "latency-exceeded", idx, "%s: next event planned %u events after the last one, the peripheral latency is %u", name, d16, latency );
            else if ( condition && d16 != 1 )
                res.violate( "C23", "listen-condition", "listen-condition bits=" + std::to_string( bits ), idx, "%s: a listen condition held (event bits 0x%02x, features 0x%02x) but the next event is planned %u events ahead", name, bits, features, d16 );
            else if ( dist != 0 && dist <= latency + 1 && d16 > dist )
                res.violate( "C23", "instant-skipped", "instant-skipped", idx, "%s: the next event is planned %u events ahead, behind the instant of a pending procedure (%llu events ahead)", name, d16, (unsigned long long)dist );
            if ( dist != 0 && d16 == dist && dist < latency + 1 && !condition ) ++n_clamped;
            planned = last_event + d16;
            pinned = false; moved_once = false;
            check_consistency( idx, "after planning" );
            break; }
        case op_timeout:
            last_event = planned;
            last_channel = state.current_channel_index();
            state.plan_next_connection_event_after_timeout( interval );
            planned = last_event + 1;
            // time_since_last_event keeps counting from the last event that was heard: not compared here
            if ( state.connection_event_counter() != static_cast< std::uint16_t >( planned ) || state.current_channel_index() != ( last_channel + 1 ) % 37 )
                res.violate( "C23", "event-counter", "event-counter after-timeout", idx, "%s: after a timeout counter %u / channel index %u, expected %u / %u", name, state.connection_event_counter(), state.current_channel_index(),
                             static_cast< std::uint16_t >( planned ), ( last_channel + 1 ) % 37 );
            res.note( "timeout -> next %llu", (unsigned long long)planned );
            check_consistency( idx, "after a timeout" );
            break;
        case op_pending_data: {
            // a0 elapsed time since the anchor in quarters of an interval, a1 radio permits
            const std::uint64_t quarters = static_cast< std::uint64_t >( std::max< std::int64_t >( 0, op.arg( 0 ) ) );
            // time since the anchor; the events that timed out since then lie in the past
            std::uint64_t elapsed_us = std::max< std::uint64_t >( quarters * interval_us / 4, ( last_event - anchor ) * static_cast< std::uint64_t >( interval_us ) + ( last_event != anchor ? 1 : 0 ) );
            // only while the peripheral sleeps: the planned event lies in the future
            if ( elapsed_us >= ( planned - anchor ) * static_cast< std::uint64_t >( interval_us ) || elapsed_us > 0xfffffff0u ) break;
            radio.elapsed = delta_time( static_cast< std::uint32_t >( elapsed_us ) );
            radio.permit = ( op.arg( 1 ) & 1 ) != 0;
            const std::uint64_t d_before = planned - last_event;
            const bool moved = state.reschedule_on_pending_data( radio, interval );
            const std::uint16_t d16 = static_cast< std::uint16_t >( state.connection_event_counter() - static_cast< std::uint16_t >( last_event ) );
            res.note( "data pending %u us after the anchor (radio %s) -> %s, next in %u (was %llu)", radio.elapsed.usec(), radio.permit ? "permits" : "refuses", moved ? "moved" : "not moved", d16, (unsigned long long)d_before );
            // the first event that still lies in the future, counted from the last event
            const std::uint64_t earliest = std::max< std::uint64_t >( 1, anchor + ( elapsed_us + interval_us - 1 ) / interval_us - last_event );
            if ( !( features & f_pending ) || !radio.permit || pinned )
            {
                if ( d16 != d_before )
                    res.violate( "C23", "pull-back", !( features & f_pending ) ? "pull-back without-feature" : pinned ? "pull-back pinned-event" : "pull-back radio-refused", idx, "%s: the planned event moved from %llu to %u events after the last one although %s",
                                 name, (unsigned long long)d_before, d16, !( features & f_pending ) ? "listen_if_pending_transmit_data is not configured" : pinned ? "it must not be moved" : "the radio refused to let it go" );
            }
            else
            {
                if ( d16 == 0 || d16 > d_before )
                    res.violate( "C23", "pull-back", d16 == 0 || d16 > 0x8000 ? "pull-back onto-or-before-last-event" : "pull-back later-than-planned", idx, "%s: the event planned %llu events after the last one was moved to %d events after it", name, (unsigned long long)d_before, static_cast< int >( static_cast< std::int16_t >( d16 ) ) );
                else if ( d16 < earliest && d16 != d_before )
                    res.violate( "C23", "pull-back", "pull-back into-the-past", idx, "%s: %u us after the anchor the event was moved to %u events after the last one; the first event in the future is %llu events after it", name, radio.elapsed.usec(), d16, (unsigned long long)earliest );
                if ( moved && d16 != d_before ) ++n_moves;
            }
            if ( d16 != 0 && d16 <= d_before ) planned = last_event + d16; else if ( !res.violations.empty() ) break;
            if ( moved ) moved_once = true;
            check_consistency( idx, "after pending data" );
            break; }
        case op_pin:
            // the link layer applied new parameters to the planned event: it must stay where it is
            state.disarmable_connection_state_last_latency( 1 );
            pinned = true;
            res.note( "planned event pinned" );
            break;
        case op_new_connection:
            state.reset_connection_state();
            last_event = planned = anchor = 0; last_channel = 0; pinned = true;
            if ( state.connection_event_counter() != 0 || state.current_channel_index() != 0 )
                res.violate( "C23", "event-counter", "event-counter new-connection", idx, "%s: a new connection starts with counter %u / channel index %u", name, state.connection_event_counter(), state.current_channel_index() );
            res.note( "new connection" );
            break;
        }
    }
    (void)moved_once;
    if ( n_moves ) res.probe( "events_pulled_back", n_moves );
    if ( n_clamped ) res.probe( "events_planned_for_an_instant", n_clamped );
    res.nontrivial = n_events >= 3 && ( n_moves >= 1 || !( features & f_pending ) );
    res.steps = plan.ops.size();
    res.sim_time_us = ( planned ) * static_cast< std::uint64_t >( interval_us );
}

struct lat_harness : sim::Harness
{
    const char* name() const override { return "lat_sim"; }
    std::vector< std::string > properties() const override { return { "C23" }; }
    std::string nontrivial_rule( const std::string& ) const override
    {
        return "seeded op streams against peripheral_latency_state for 6 latency configurations: connection events with every combination of listen conditions, pending instants 1..600 events ahead, "
               "latency 0..499 (changing), timeouts, data that becomes pending 0..(latency+1) intervals after the anchor with a radio that permits or refuses, pinned events, new connections; "
               "non-trivial = at least 3 events and (with listen_if_pending_transmit_data) at least one event pulled back; distinct = distinct trace hashes";
    }
    std::vector< std::string > real_components() const override { return { "bluetoe/link_layer/include/bluetoe/peripheral_latency.hpp (peripheral_latency_state, connection_state_base, disarmable_connection_state)", "bluetoe/link_layer/delta_time.cpp" }; }
    std::vector< std::string > stub_components() const override { return { "link layer (op stream)", "radio (disarm_connection_event answers as the plan says)" }; }
    std::uint64_t default_runs( const std::string&, bool thorough ) const override { return thorough ? 3000000 : 100000; }
    std::vector< std::string > op_names() const override { return { "event", "timeout", "pending_data", "pin", "new_connection" }; }

    sim::Plan generate( std::uint64_t seed, const std::string& property, bool thorough ) const override
    {
        sim::Rng rng( seed );
        sim::Plan p;
        p.harness = name(); p.property = property; p.seed = seed;
        p.config = static_cast< int >( rng.below( 6 ) );
        const std::int64_t latency = rng.chance( 50 ) ? rng.range( 0, 8 ) : rng.chance( 50 ) ? rng.range( 9, 499 ) : rng.range( 470, 499 );
        p.knobs[ "latency" ] = latency;
        p.knobs[ "interval" ] = rng.chance( 70 ) ? rng.range( 0, 40 ) : rng.range( 0, 3194 );
        const unsigned n = static_cast< unsigned >( rng.range( 4, thorough ? 120 : 50 ) );
        const unsigned p_quiet = static_cast< unsigned >( rng.range( 30, 95 ) );       // how often an event has nothing to report
        std::int64_t lat = latency;
        for ( unsigned i = 0; i != n; ++i )
        {
            const unsigned x = static_cast< unsigned >( rng.below( 100 ) );
            if ( x < 50 )
            {
                const std::int64_t bits = rng.chance( p_quiet ) ? 0 : ( rng.chance( 70 ) ? ( 1 << rng.below( 6 ) ) : rng.range( 0, 63 ) );
                std::int64_t instant = 0;
                if ( rng.chance( 35 ) ) instant = rng.chance( 70 ) ? rng.range( 1, lat + 2 ) : rng.range( 1, 600 );
                std::int64_t new_latency = -1;
                if ( rng.chance( 8 ) ) { new_latency = rng.chance( 50 ) ? rng.range( 0, 8 ) : rng.range( 0, 499 ); lat = new_latency; }
                p.ops.push_back( sim::Op( op_event, { bits, instant, new_latency } ) );
            }
            else if ( x < 58 ) p.ops.push_back( sim::Op( op_timeout, {} ) );
            else if ( x < 90 ) p.ops.push_back( sim::Op( op_pending_data, { rng.chance( 50 ) ? rng.range( 0, 8 ) : rng.range( 0, 4 * ( lat + 1 ) ), rng.chance( 85 ) ? 1 : 0 } ) );
            else if ( x < 96 ) p.ops.push_back( sim::Op( op_pin, {} ) );
            else p.ops.push_back( sim::Op( op_new_connection, {} ) );
        }
        return p;
    }

    void execute( const sim::Plan& plan, sim::Result& res ) const override
    {
        using L = ll::peripheral_latency;
        switch ( ( ( plan.config % 6 ) + 6 ) % 6 )
        {
        case 0: run< ll::periperal_latency_default_configuration >( plan, res, f_pending | f_unack | f_rx | f_tx | f_md, "default" ); break;
        case 1: run< ll::peripheral_latency_strict >( plan, res, f_pending | f_md, "strict" ); break;
        case 2: run< ll::peripheral_latency_configuration< L::listen_if_pending_transmit_data > >( plan, res, f_pending, "pending-only" ); break;
        case 3: run< ll::peripheral_latency_configuration< L::listen_if_last_received_not_empty, L::listen_if_unacknowledged_data > >( plan, res, f_rx | f_unack, "rx+unack" ); break;
        case 4: run< ll::peripheral_latency_ignored >( plan, res, f_always, "ignored" ); break;
        default: run< ll::peripheral_latency_strict_plus >( plan, res, f_rx | f_md, "strict-plus" ); break;
        }
    }

    std::vector< sim::Op > simplify( const sim::Plan& plan, std::size_t i ) const override
    {
        std::vector< sim::Op > r;
        const sim::Op& op = plan.ops[ i ];
        for ( std::size_t a = 0; a != op.a.size(); ++a )
            if ( op.a[ a ] > 0 ) { sim::Op c = op; c.a[ a ] = op.a[ a ] / 2; r.push_back( c ); c.a[ a ] = op.a[ a ] - 1; r.push_back( c ); }
        return r;
    }
};

}

int main( int argc, char** argv )
{
    lat_harness h;
    return sim::sim_main( argc, argv, h );
}
