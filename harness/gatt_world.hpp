// gatt_world - one GATT server, up to three clients, an application and a link stub (gatt_sim; C01-C03, C05-C11)
//
// Real code: bluetoe::server<...> with everything it instantiates.  Stub: the link layer (a callback that does what
// link_layer::queue_lcap_notification does, for every live connection) and the L2CAP layer (buffers sized as l2cap.hpp sizes them).
// The reference model works on tables generated next to the declaration by gen/gen_configs.py from one abstract description.
#ifndef VERIF_GATT_WORLD_HPP
#define VERIF_GATT_WORLD_HPP

#include <iterator>
#include <array>
#include <algorithm>
#include <cstring>
#include <memory>
#include <set>
#include <string>
#include <vector>

#include <bluetoe/server.hpp>
#include <bluetoe/link_state.hpp>

#include "../sim/sim.hpp"

namespace gatt {

enum attr_kind { a_service, a_char_decl, a_value, a_cccd, a_const };
enum value_kind { v_bind, v_const, v_handler };

// a value behind read/write handlers: variable length up to a capacity, with error injection
struct blob_store {
    std::uint8_t bytes[ 64 ];
    std::size_t  len = 0, cap = 0;
    unsigned     reads = 0, writes = 0;
    std::uint8_t fail_read = 0, fail_write = 0;

    void reset( const std::uint8_t* init, std::size_t l, std::size_t c )
    {
        std::memset( bytes, 0, sizeof bytes );
        std::memcpy( bytes, init, l );
        len = l; cap = c; reads = writes = 0; fail_read = fail_write = 0;
    }
    std::uint8_t read( std::size_t o, std::size_t n, std::uint8_t* out, std::size_t& os )
    {
        ++reads;
        if ( fail_read ) { const std::uint8_t e = fail_read; fail_read = 0; return e; }
        if ( o > len ) return 0x07;
        os = std::min( n, len - o );
        std::memcpy( out, bytes + o, os );
        return 0;
    }
    std::uint8_t write( std::size_t o, std::size_t n, const std::uint8_t* v )
    {
        ++writes;
        if ( fail_write ) { const std::uint8_t e = fail_write; fail_write = 0; return e; }
        if ( o > len ) return 0x07;
        if ( o + n > cap ) return 0x0d;
        if ( n ) std::memcpy( bytes + o, v, n );
        len = o + n;
        return 0;
    }
};

struct cccd_recorder {
    unsigned calls = 0;
    template < class Server >
    void client_characteristic_configuration_updated( Server&, const bluetoe::details::client_characteristic_configuration& ) { ++calls; }
};

struct service_desc { std::uint16_t start, end; bool primary; int uuid_len; std::uint8_t uuid[ 16 ]; };
struct char_desc {
    int service; value_kind kind; int size; bool readable, writable, notify, indicate, encrypted, handler_read;
    std::uint8_t props; std::uint16_t decl_handle, value_handle, cccd_handle; int cccd_index; int uuid_len; std::uint8_t uuid[ 16 ];
    std::uint8_t init[ 64 ]; std::uint8_t* ptr; blob_store* store;
};
struct attr_desc { std::uint16_t handle; attr_kind kind; std::uint16_t uuid16; int service; int chr; int reserved; int const_len; std::uint8_t const_value[ 64 ]; };
struct config_desc {
    int index; int max_mtu; int queue; int n_cccd;
    const service_desc* services; std::size_t n_services;
    const char_desc* chars; std::size_t n_chars;
    const attr_desc* attrs; std::size_t n_attrs;
    const int* cccd_storage;        // CCCD k (declaration order) -> index of its flags in the server's client_characteristic_configuration
};

using bytes = std::vector< std::uint8_t >;

enum { op_request, op_poll, op_app_request, op_app_set, op_disconnect, op_security, op_fail_next, op_discover, op_count };

inline std::uint16_t rd16( const std::uint8_t* p ) { return static_cast< std::uint16_t >( p[ 0 ] | ( p[ 1 ] << 8 ) ); }

// ------------------------------------------------------------------------------------------------ model
struct model_conn {
    bool            live = true;
    unsigned        mtu = 23;
    std::vector< std::uint8_t > cccd;
    bool            encrypted = false;
    int             pairing = 0;             // 0 no key, 1 unauthenticated key, 2 authenticated key
    std::vector< int > pend_n, pend_i;       // per characteristic: 0 no, 1 yes, 2 maybe
    bool            outstanding = false;
    int             outstanding_char = -1;
    unsigned        polls_since_fault = 0;
};

struct queued_write { std::uint16_t handle, offset; bytes value; };

struct model {
    const config_desc* cfg_ptr;
    const config_desc& cfg() const { return *cfg_ptr; }
    std::vector< bytes > values;         // per characteristic (bind: fixed size; handler: current length; const: the constant)
    std::vector< model_conn > conns;
    int queue_owner = -1;
    std::vector< queued_write > queue;
    std::size_t queue_used = 0;
    std::vector< std::uint8_t > fail_read, fail_write;   // per characteristic, injected handler errors
    std::vector< unsigned > handler_reads, handler_writes;
    unsigned cccd_callbacks = 0;

    explicit model( const config_desc& c, unsigned n_conns ) : cfg_ptr( &c ), conns( n_conns )
    {
        values.resize( cfg().n_chars );
        fail_read.assign( cfg().n_chars, 0 ); fail_write.assign( cfg().n_chars, 0 );
        handler_reads.assign( cfg().n_chars, 0 ); handler_writes.assign( cfg().n_chars, 0 );
        for ( std::size_t i = 0; i != cfg().n_chars; ++i )
        {
            const char_desc& ch = cfg().chars[ i ];
            values[ i ].assign( ch.init, ch.init + ( ch.kind == v_handler ? ch.size / 2 : ch.size ) );
        }
        for ( auto& c2 : conns ) reset_conn( c2 );
    }
    void reset_conn( model_conn& c ) const
    {
        c = model_conn();
        c.cccd.assign( static_cast< std::size_t >( cfg().n_cccd ), 0 );
        c.pend_n.assign( cfg().n_chars, 0 ); c.pend_i.assign( cfg().n_chars, 0 );
    }
    unsigned mtu( const model_conn& c ) const { return std::min< unsigned >( c.mtu, static_cast< unsigned >( cfg().max_mtu ) ); }
    const attr_desc* find( std::uint16_t handle ) const
    {
        for ( std::size_t i = 0; i != cfg().n_attrs; ++i ) if ( cfg().attrs[ i ].handle == handle ) return &cfg().attrs[ i ];
        return nullptr;
    }
    bytes type_of( const attr_desc& a ) const
    {
        if ( a.kind == a_value && a.uuid16 == 0 ) { const char_desc& ch = cfg().chars[ a.chr ]; return bytes( ch.uuid, ch.uuid + 16 ); }
        return bytes{ static_cast< std::uint8_t >( a.uuid16 ), static_cast< std::uint8_t >( a.uuid16 >> 8 ) };
    }
    bool type_matches( const attr_desc& a, const bytes& type ) const
    {
        const bytes t = type_of( a );
        if ( t.size() == type.size() ) return t == type;
        // a 16 bit type equals the 128 bit type derived from the Bluetooth base UUID
        static const std::uint8_t base[ 16 ] = { 0xFB, 0x34, 0x9B, 0x5F, 0x80, 0x00, 0x00, 0x80, 0x00, 0x10, 0x00, 0x00, 0, 0, 0, 0 };
        const bytes& s = t.size() == 2 ? t : type;
        const bytes& l = t.size() == 2 ? type : t;
        bytes ext( base, base + 16 );
        ext[ 12 ] = s[ 0 ]; ext[ 13 ] = s[ 1 ];
        return ext == l;
    }
    bool protected_attr( const attr_desc& a ) const { return ( a.kind == a_value || a.kind == a_cccd ) && cfg().chars[ a.chr ].encrypted; }
    int security_error( const model_conn& c ) const { return c.pairing == 0 ? 0x05 : 0x0f; }

    // the complete current value of an attribute as a client may see it
    bytes attr_value( const attr_desc& a, const model_conn& c ) const
    {
        switch ( a.kind )
        {
        case a_service: case a_const: return bytes( a.const_value, a.const_value + a.const_len );
        case a_char_decl: {
            const char_desc& ch = cfg().chars[ a.chr ];
            bytes v{ ch.props, static_cast< std::uint8_t >( ch.value_handle ), static_cast< std::uint8_t >( ch.value_handle >> 8 ) };
            v.insert( v.end(), ch.uuid, ch.uuid + ch.uuid_len );
            return v; }
        case a_value: return values[ static_cast< std::size_t >( a.chr ) ];
        case a_cccd: return bytes{ c.cccd[ static_cast< std::size_t >( cfg().chars[ a.chr ].cccd_index ) ], 0 };
        }
        return bytes();
    }

    struct access { bool ok = false; std::set< int > errors; bool any_error = false; bytes data; bool handler_called = false; };

    // read access to an attribute at an offset with room for `room` bytes; `commit` consumes injected handler failures
    access read( const attr_desc& a, model_conn& c, std::size_t offset, std::size_t room, bool commit )
    {
        access r;
        const bool value_like = a.kind == a_value;
        if ( protected_attr( a ) && !c.encrypted )
        {
            r.errors.insert( security_error( c ) );
            if ( value_like && !cfg().chars[ a.chr ].readable ) r.any_error = true;
            return r;
        }
        if ( value_like && !cfg().chars[ a.chr ].readable ) { r.any_error = true; return r; }
        if ( value_like && cfg().chars[ a.chr ].kind == v_handler )
        {
            r.handler_called = true;
            const std::size_t ci = static_cast< std::size_t >( a.chr );
            if ( commit ) ++handler_reads[ ci ];
            if ( fail_read[ ci ] ) { r.errors.insert( fail_read[ ci ] ); if ( commit ) fail_read[ ci ] = 0; return r; }
        }
        const bytes v = attr_value( a, c );
        if ( offset > v.size() ) { r.errors.insert( 0x07 ); return r; }
        r.ok = true;
        r.data.assign( v.begin() + static_cast< long >( offset ), v.begin() + static_cast< long >( std::min( v.size(), offset + room ) ) );
        return r;
    }

    // would a Write Request to this attribute on this connection be permitted at all? (value independent part)
    access write_permission( const attr_desc& a, const model_conn& c ) const
    {
        access r;
        const bool writable_kind = ( a.kind == a_value && cfg().chars[ a.chr ].writable ) || a.kind == a_cccd;
        if ( protected_attr( a ) && !c.encrypted )
        {
            r.errors.insert( security_error( c ) );
            if ( !writable_kind ) r.any_error = true;
            return r;
        }
        if ( !writable_kind ) { r.any_error = true; return r; }
        r.ok = true;
        return r;
    }

    access write( const attr_desc& a, model_conn& c, std::size_t offset, const bytes& data )
    {
        access r = write_permission( a, c );
        if ( !r.ok ) return r;
        r.ok = false;
        if ( a.kind == a_cccd )
        {
            if ( offset > 2 ) { r.errors.insert( 0x07 ); return r; }
            if ( offset + data.size() > 2 ) { r.any_error = true; return r; }
            const std::size_t idx = static_cast< std::size_t >( cfg().chars[ a.chr ].cccd_index );
            if ( offset == 0 && !data.empty() )
            {
                const std::uint8_t nv = data[ 0 ] & 3;
                if ( nv != c.cccd[ idx ] ) ++cccd_callbacks;
                c.cccd[ idx ] = nv;
            }
            r.ok = true;
            return r;
        }
        const std::size_t ci = static_cast< std::size_t >( a.chr );
        const char_desc& ch = cfg().chars[ ci ];
        bytes& v = values[ ci ];
        if ( ch.kind == v_handler )
        {
            r.handler_called = true;
            ++handler_writes[ ci ];
            if ( fail_write[ ci ] ) { r.errors.insert( fail_write[ ci ] ); fail_write[ ci ] = 0; return r; }
            if ( offset > v.size() ) { r.errors.insert( 0x07 ); return r; }
            if ( offset + data.size() > static_cast< std::size_t >( ch.size ) ) { r.any_error = true; return r; }
            v.resize( offset );
            v.insert( v.end(), data.begin(), data.end() );
            r.ok = true;
            return r;
        }
        if ( offset > v.size() ) { r.errors.insert( 0x07 ); return r; }
        if ( offset + data.size() > v.size() ) { r.any_error = true; return r; }
        std::copy( data.begin(), data.end(), v.begin() + static_cast< long >( offset ) );
        r.ok = true;
        return r;
    }
};

// ------------------------------------------------------------------------------------------------ world
template < class Server >
class world
{
public:
    using connection_t = typename Server::template channel_data_t< bluetoe::details::link_state >;
    typedef bool ( *app_request_t )( Server&, int, bool, bool );
    typedef void ( *reset_values_t )();

    world( const config_desc& c, app_request_t app, reset_values_t reset, cccd_recorder* rec )
        : cfg_( c ), app_( app ), reset_( reset ), recorder_( rec ), m_( c, 3 )
    {
    }

    void run( const sim::Plan& plan, sim::Result& res )
    {
        res_ = &res;
        reset_();
        server_.reset( new Server );
        n_conns_ = static_cast< unsigned >( std::min< std::int64_t >( 3, std::max< std::int64_t >( 1, plan.knob( "clients", 2 ) ) ) );
        m_ = model( cfg_, n_conns_ );
        conns_.clear();
        for ( unsigned i = 0; i != n_conns_; ++i ) conns_.emplace_back( new connection_t );
        server_->notification_callback( &world::notification_cb, this );
        stats_ = stats();

        long idx = -1;
        for ( const auto& op : plan.ops )
        {
            ++idx;
            idx_ = idx;
            if ( stop_ ) break;
            last_op_class_ = "non-request";
            const unsigned c = static_cast< unsigned >( ( ( op.arg( 0 ) % n_conns_ ) + n_conns_ ) % n_conns_ );
            switch ( ( ( op.kind % op_count ) + op_count ) % op_count )
            {
            case op_request:    if ( !op.bytes.empty() ) request( c, op.bytes ); break;
            case op_poll:       poll( c, static_cast< std::size_t >( op.arg( 1 ) ) ); break;
            case op_app_request: app_request( op.arg( 0 ), ( op.arg( 1 ) & 1 ) != 0, ( op.arg( 2 ) & 1 ) != 0 ); break;
            case op_app_set:    app_set( op.arg( 0 ), op.arg( 1 ) ); break;
            case op_disconnect: disconnect( c, ( op.arg( 1 ) & 1 ) != 0 ); break;
            case op_security:   security( c, static_cast< int >( ( ( op.arg( 1 ) % 4 ) + 4 ) % 4 ) ); break;
            case op_fail_next:  fail_next( op.arg( 0 ), ( op.arg( 1 ) & 1 ) != 0, static_cast< std::uint8_t >( op.arg( 2 ) ) ); break;
            case op_discover:   discover( c, static_cast< int >( op.arg( 1 ) ), op.bytes, static_cast< std::uint16_t >( op.arg( 2 ) ), static_cast< std::uint16_t >( op.arg( 3 ) ) ); break;
            }
            if ( !stop_ ) compare_stores( idx );
        }
        // faults have stopped: every deliverable pending request goes out within a bounded number of polls (clients confirm)
        if ( !stop_ ) drain();
        res.nontrivial = stats_.requests >= 3 && stats_.successes >= 1 && stats_.errors >= 1;
        res.probe( "att_requests", stats_.requests );
        if ( stats_.notifications ) res.probe( "notifications_sent", stats_.notifications );
        if ( stats_.indications ) res.probe( "indications_sent", stats_.indications );
        if ( stats_.prepared ) res.probe( "prepare_write_accepted", stats_.prepared );
        if ( stats_.executed ) res.probe( "execute_write_applied", stats_.executed );
        if ( stats_.queue_conflict ) res.probe( "prepare_while_queue_owned_by_other_client", stats_.queue_conflict );
        if ( stats_.protected_denied ) res.probe( "protected_access_denied", stats_.protected_denied );
        if ( stats_.discoveries ) res.probe( "discovery_procedures", stats_.discoveries );
        conns_.clear();
        server_.reset();
    }

private:
    struct stats { unsigned requests = 0, successes = 0, errors = 0, notifications = 0, indications = 0, prepared = 0, executed = 0, queue_conflict = 0, protected_denied = 0, discoveries = 0; };

    const config_desc&  cfg_;
    app_request_t       app_;
    reset_values_t      reset_;
    cccd_recorder*      recorder_;
    model               m_;
    std::unique_ptr< Server > server_;
    std::vector< std::unique_ptr< connection_t > > conns_;
    unsigned            n_conns_ = 1;
    sim::Result*        res_ = nullptr;
    long                idx_ = 0;
    bool                stop_ = false;
    int                 current_conn_ = -1;
    stats               stats_;

    // ---- link layer stub: what link_layer::queue_lcap_notification does, for every live connection
    static bool notification_cb( const bluetoe::details::notification_data& item, void* that, bluetoe::details::notification_type type )
    {
        world& w = *static_cast< world* >( that );
        bool result = false;
        switch ( type )
        {
        case bluetoe::details::notification_type::notification:
            for ( unsigned c = 0; c != w.n_conns_; ++c )
                if ( w.m_.conns[ c ].live ) result = w.conns_[ c ]->queue_notification( item.client_characteristic_configuration_index() ) || result;
            break;
        case bluetoe::details::notification_type::indication:
            for ( unsigned c = 0; c != w.n_conns_; ++c )
                if ( w.m_.conns[ c ].live ) result = w.conns_[ c ]->queue_indication( item.client_characteristic_configuration_index() ) || result;
            break;
        case bluetoe::details::notification_type::confirmation:
            if ( w.current_conn_ >= 0 ) w.conns_[ static_cast< unsigned >( w.current_conn_ ) ]->indication_confirmed();
            return true;
        }
        return result;
    }

    // an empty service in front of a notifying characteristic shifts the attribute index that find_notification_data computes (known finding)
    bool empty_service_before_notifying_characteristic() const
    {
        for ( std::size_t s = 0; s != cfg_.n_services; ++s )
        {
            bool has_chars = false;
            for ( std::size_t c = 0; c != cfg_.n_chars; ++c ) if ( cfg_.chars[ c ].service == static_cast< int >( s ) ) has_chars = true;
            if ( has_chars ) continue;
            for ( std::size_t c = 0; c != cfg_.n_chars; ++c )
                if ( cfg_.chars[ c ].service > static_cast< int >( s ) && cfg_.chars[ c ].cccd_index >= 0 ) return true;
        }
        return false;
    }

    template < class ... Args >
    void violate( const char* property, const char* rule, const std::string& key, const char* fmt, Args ... args )
    {
        const std::string p = property;
        const bool notification_rule = std::string( rule ).find( "notification" ) != std::string::npos || std::string( rule ).find( "indication" ) != std::string::npos || std::string( rule ) == "server-pdu-format";
        if ( notification_rule && ( p == "C10" || p == "C11" || p == "C05" || p == "C08" ) && empty_service_before_notifying_characteristic() )
            res_->violate( property, rule, key + " config-with-empty-service", idx_, fmt, args... );
        else
            res_->violate( property, rule, key, idx_, fmt, args... );
    }

    // ---- transport: exactly sized heap blocks, so that ASan sees every access outside the PDU / the buffer
    bytes transact( unsigned c, const bytes& req, std::size_t out_cap )
    {
        std::unique_ptr< std::uint8_t[] > in( new std::uint8_t[ req.size() ] );
        std::memcpy( in.get(), req.data(), req.size() );
        std::unique_ptr< std::uint8_t[] > out( new std::uint8_t[ out_cap ] );
        std::memset( out.get(), 0x5a, out_cap );
        std::size_t out_size = out_cap;
        current_conn_ = static_cast< int >( c );
        server_->l2cap_input( in.get(), req.size(), out.get(), out_size, *conns_[ c ] );
        current_conn_ = -1;
        if ( out_size > out_cap )
        {
            violate( "C01", "output-size", "output-size", "l2cap_input reports %zu output bytes for a buffer of %zu", out_size, out_cap );
            stop_ = true;
            return bytes();
        }
        return bytes( out.get(), out.get() + out_size );
    }

    static bool is_request_opcode( std::uint8_t op )
    {
        switch ( op ) { case 0x02: case 0x04: case 0x06: case 0x08: case 0x0a: case 0x0c: case 0x0e: case 0x10: case 0x12: case 0x16: case 0x18: return true; }
        return false;
    }

    // ------------------------------------------------------------------------------------------------ one ATT PDU from a client
    bytes request( unsigned c, const bytes& req, bool quiet = false )
    {
        model_conn& mc = m_.conns[ c ];
        if ( !mc.live ) return bytes();
        ++stats_.requests;
        const unsigned mtu_before = m_.mtu( mc );
        const std::size_t out_cap = static_cast< std::size_t >( std::max( cfg_.max_mtu, 23 ) );
        // expectations are computed BEFORE the real code runs (they may consume injected failures in the model)
        const std::uint8_t opcode = req[ 0 ];
        last_op_class_ = opcode == 0x16 ? "prepare" : opcode == 0x18 ? "execute" : ( opcode == 0x12 || opcode == 0x52 ) ? "write" : "other-request";
        const bytes resp = transact( c, req, out_cap );
        if ( stop_ ) return resp;
        if ( !quiet ) res_->note( "c%u req %s -> %s", c, sim::hex( req.data(), std::min< std::size_t >( req.size(), 24 ) ).c_str(), sim::hex( resp.data(), std::min< std::size_t >( resp.size(), 24 ) ).c_str() );
        else res_->note_bytes( "r", resp.data(), resp.size() );

        // --- C01: framing
        if ( resp.size() > mtu_before )
            violate( "C08", "response-exceeds-mtu", "response-exceeds-mtu", "response of %zu bytes to opcode 0x%02x exceeds the negotiated MTU %u", resp.size(), opcode, mtu_before );
        if ( is_request_opcode( opcode ) )
        {
            if ( resp.empty() )
                violate( "C01", "request-unanswered", "request-unanswered", "request 0x%02x got no response", opcode );
            else if ( resp[ 0 ] == 0x01 )
            {
                if ( resp.size() != 5 || resp[ 1 ] != opcode )
                    violate( "C01", "error-response-format", "error-response-format", "Error Response %s does not name request opcode 0x%02x", sim::hex( resp ).c_str(), opcode );
            }
            else if ( resp[ 0 ] != opcode + 1 )
                violate( "C01", "response-opcode", "response-opcode", "request 0x%02x answered with opcode 0x%02x", opcode, resp[ 0 ] );
        }
        else if ( ( opcode & 0x40 ) || opcode == 0x1e || opcode == 0x01 || opcode == 0x1b )
        {
            if ( !resp.empty() )
            {
                const bool not_supported = resp == bytes{ 0x01, opcode, 0, 0, 0x06 };
                std::string key = opcode == 0x1e ? "response-to-confirmation" : opcode == 0x52 ? "response-to-write-command" : ( opcode & 0x40 ) ? "response-to-command" : "response-to-notification-or-error";
                if ( opcode == 0x1e && req.size() != 1 && resp == bytes{ 0x01, 0x1e, 0, 0, 0x04 } ) key += " malformed invalid-pdu";
                else if ( opcode != 0x1e && opcode != 0x52 && not_supported ) key += " unknown-opcode request-not-supported";
                violate( "C01", "response-to-non-request", key, "PDU with opcode 0x%02x (%zu bytes) is no request but got the response %s", opcode, req.size(), sim::hex( resp ).c_str() );
            }
        }
        else if ( ( opcode & 1 ) == 0 || opcode > 0x1e )
        {
            // an unknown request opcode
            if ( resp.size() != 5 || resp[ 0 ] != 0x01 || resp[ 1 ] != opcode )
                violate( "C01", "unknown-request", "unknown-request", "unknown request opcode 0x%02x answered with %s instead of an Error Response naming it", opcode, sim::hex( resp ).c_str() );
        }
        if ( !resp.empty() ) { if ( resp[ 0 ] == 0x01 ) ++stats_.errors; else ++stats_.successes; }

        check_semantics( c, req, resp );
        return resp;
    }

    bool is_error( const bytes& resp, int code = -1 ) const { return resp.size() == 5 && resp[ 0 ] == 0x01 && ( code < 0 || resp[ 4 ] == code ); }

    // the value of a characteristic with a read handler and no_read_access: see the known finding 'handler-value-no-read-access'
    bool unreadable_handler_value( const attr_desc& a ) const
    {
        return a.kind == a_value && a.chr >= 0 && !cfg_.chars[ a.chr ].readable && cfg_.chars[ a.chr ].handler_read;
    }

    void expect_error( const char* property, const char* rule, const bytes& req, const bytes& resp, const std::set< int >& codes, const char* why, const std::string& key_suffix = "" )
    {
        if ( !is_error( resp ) )
            violate( property, rule, std::string( rule ) + " accepted" + key_suffix, "request %s must be rejected (%s) but got %s", sim::hex( req.data(), std::min< std::size_t >( req.size(), 16 ) ).c_str(), why, sim::hex( resp.data(), std::min< std::size_t >( resp.size(), 16 ) ).c_str() );
        else if ( !codes.empty() && !codes.count( resp[ 4 ] ) )
        {
            std::string list;
            for ( int x : codes ) { char b[ 8 ]; snprintf( b, sizeof b, "%s0x%02x", list.empty() ? "" : "/", x ); list += b; }
            violate( property, rule, std::string( rule ) + " code", "request %s rejected with error 0x%02x, expected %s (%s)", sim::hex( req.data(), std::min< std::size_t >( req.size(), 16 ) ).c_str(), resp[ 4 ], list.c_str(), why );
        }
    }

    const char* sec_property( const model::access& a, const model_conn& mc ) const
    {
        return ( a.errors.count( 0x05 ) || a.errors.count( 0x0f ) ) && !mc.encrypted ? "C05" : "C06";
    }

    void check_semantics( unsigned c, const bytes& req, const bytes& resp )
    {
        model_conn& mc = m_.conns[ c ];
        const std::uint8_t opcode = req[ 0 ];
        const unsigned mtu = m_.mtu( mc );
        switch ( opcode )
        {
        case 0x02: {    // Exchange MTU
            const bool valid = req.size() == 3 && rd16( &req[ 1 ] ) >= 23;
            if ( !valid ) { expect_error( "C08", "mtu-invalid-request", req, resp, {}, "client MTU below 23 or wrong length" ); break; }
            const bytes expect{ 0x03, static_cast< std::uint8_t >( cfg_.max_mtu ), static_cast< std::uint8_t >( cfg_.max_mtu >> 8 ) };
            if ( resp != expect )
                violate( "C08", "mtu-response", "mtu-response", "Exchange MTU Response %s, expected %s", sim::hex( resp ).c_str(), sim::hex( expect ).c_str() );
            mc.mtu = rd16( &req[ 1 ] );
            break; }
        case 0x04: check_find_information( c, req, resp ); break;
        case 0x06: check_find_by_type_value( c, req, resp ); break;
        case 0x08: check_read_by_type( c, req, resp ); break;
        case 0x10: check_read_by_group_type( c, req, resp ); break;
        case 0x0a: case 0x0c: {   // Read, Read Blob
            const std::size_t want = opcode == 0x0a ? 3 : 5;
            if ( req.size() != want ) { expect_error( "C01", "malformed-read", req, resp, {}, "wrong length" ); break; }
            const std::uint16_t handle = rd16( &req[ 1 ] );
            const std::size_t offset = opcode == 0x0c ? rd16( &req[ 3 ] ) : 0;
            const attr_desc* a = m_.find( handle );
            if ( !a ) { expect_error( "C06", "read-unknown-handle", req, resp, { 0x01 }, "no attribute with this handle" ); break; }
            const model::access r = m_.read( *a, mc, offset, mtu - 1, true );
            if ( !r.ok )
            {
                const char* prop = sec_property( r, mc );
                if ( std::string( prop ) == "C05" ) ++stats_.protected_denied;
                if ( !is_error( resp ) && m_.protected_attr( *a ) && !mc.encrypted )
                    violate( "C05", "protected-read", "protected-read", "handle 0x%04x requires encryption, the link is not encrypted, and the read was answered with %s", handle, sim::hex( resp.data(), std::min< std::size_t >( 12, resp.size() ) ).c_str() );
                else
                    expect_error( prop, opcode == 0x0a ? "read-rejected" : "read-blob-rejected", req, resp, r.any_error ? std::set< int >() : r.errors, "model: access not possible", unreadable_handler_value( *a ) ? " handler-value-no-read-access" : "" );
                break;
            }
            bytes expect{ static_cast< std::uint8_t >( opcode + 1 ) };
            expect.insert( expect.end(), r.data.begin(), r.data.end() );
            if ( resp != expect )
                violate( opcode == 0x0c && offset ? "C06" : "C06", opcode == 0x0a ? "read-value" : "read-blob-value", a->kind == a_value ? "read-value" : a->kind == a_cccd ? "read-cccd" : "read-declaration",
                         "read of handle 0x%04x offset %zu returned %s, model %s (MTU %u)", handle, offset, sim::hex( resp.data(), std::min< std::size_t >( resp.size(), 24 ) ).c_str(), sim::hex( expect.data(), std::min< std::size_t >( expect.size(), 24 ) ).c_str(), mtu );
            break; }
        case 0x0e: {    // Read Multiple
            if ( req.size() < 5 || req.size() % 2 == 0 ) { expect_error( "C01", "malformed-read", req, resp, {}, "wrong length" ); break; }
            bytes expect{ 0x0f };
            bool failed = false;
            for ( std::size_t p = 1; p + 1 < req.size() && !failed; p += 2 )
            {
                const std::uint16_t handle = rd16( &req[ p ] );
                const attr_desc* a = m_.find( handle );
                if ( !a ) { expect_error( "C06", "read-unknown-handle", req, resp, { 0x01 }, "no attribute with this handle" ); failed = true; break; }
                const model::access r = m_.read( *a, mc, 0, 512, true );
                if ( !r.ok )
                {
                    if ( !is_error( resp ) && m_.protected_attr( *a ) && !mc.encrypted )
                        violate( "C05", "protected-read", "protected-read multiple", "handle 0x%04x requires encryption, the link is not encrypted, and Read Multiple answered %s", handle, sim::hex( resp.data(), std::min< std::size_t >( 12, resp.size() ) ).c_str() );
                    else
                        expect_error( sec_property( r, mc ), "read-multiple-rejected", req, resp, r.any_error ? std::set< int >() : r.errors, "model: one of the handles cannot be read", unreadable_handler_value( *a ) ? " handler-value-no-read-access" : "" );
                    failed = true;
                    break;
                }
                expect.insert( expect.end(), r.data.begin(), r.data.end() );
            }
            if ( failed ) break;
            if ( expect.size() > mtu ) expect.resize( mtu );
            if ( resp != expect )
                violate( "C06", "read-multiple-value", "read-multiple-value", "Read Multiple returned %s, model %s", sim::hex( resp.data(), std::min< std::size_t >( resp.size(), 24 ) ).c_str(), sim::hex( expect.data(), std::min< std::size_t >( expect.size(), 24 ) ).c_str() );
            break; }
        case 0x12: case 0x52: {   // Write Request, Write Command
            const bool command = opcode == 0x52;
            if ( req.size() < 3 ) { if ( !command ) expect_error( "C01", "malformed-write", req, resp, {}, "wrong length" ); break; }
            const std::uint16_t handle = rd16( &req[ 1 ] );
            const attr_desc* a = m_.find( handle );
            if ( !a ) { if ( !command ) expect_error( "C06", "write-unknown-handle", req, resp, { 0x01 }, "no attribute with this handle" ); break; }
            const bytes data( req.begin() + 3, req.end() );
            const model::access w = m_.write( *a, mc, 0, data );
            if ( !w.ok && ( w.errors.count( 0x05 ) || w.errors.count( 0x0f ) ) ) ++stats_.protected_denied;
            if ( command ) break;     // store comparison decides
            if ( !w.ok )
            {
                if ( !is_error( resp ) && m_.protected_attr( *a ) && !mc.encrypted )
                    violate( "C05", "protected-write", "protected-write", "handle 0x%04x requires encryption, the link is not encrypted, and the write was accepted", handle );
                else
                    expect_error( sec_property( w, mc ), "write-rejected", req, resp, w.any_error ? std::set< int >() : w.errors, "model: write not possible" );
            }
            else if ( resp != bytes{ 0x13 } )
                violate( "C06", "write-refused", a->kind == a_cccd ? "write-refused cccd" : "write-refused value", "write of %zu bytes to handle 0x%04x must succeed but got %s", data.size(), handle, sim::hex( resp ).c_str() );
            break; }
        case 0x16: check_prepare_write( c, req, resp ); break;
        case 0x18: check_execute_write( c, req, resp ); break;
        case 0x1e:
            if ( req.size() == 1 ) { mc.outstanding = false; mc.outstanding_char = -1; }
            break;
        default: break;
        }
    }

    // the attributes of the model inside [start, end]
    std::vector< const attr_desc* > range( std::uint16_t start, std::uint16_t end ) const
    {
        std::vector< const attr_desc* > r;
        for ( std::size_t i = 0; i != cfg_.n_attrs; ++i )
            if ( cfg_.attrs[ i ].handle >= start && cfg_.attrs[ i ].handle <= end ) r.push_back( &cfg_.attrs[ i ] );
        return r;
    }

    bool check_range_header( const char* property, const bytes& req, const bytes& resp, std::size_t len_a, std::size_t len_b, std::uint16_t& start, std::uint16_t& end )
    {
        if ( req.size() != len_a && req.size() != len_b ) { expect_error( "C01", "malformed-range-request", req, resp, {}, "wrong length" ); return false; }
        start = rd16( &req[ 1 ] ); end = rd16( &req[ 3 ] );
        if ( start == 0 || start > end ) { expect_error( property, "invalid-range", req, resp, { 0x01 }, "start handle 0 or start > end" ); return false; }
        return true;
    }

    void check_find_information( unsigned, const bytes& req, const bytes& resp )
    {
        std::uint16_t start, end;
        if ( !check_range_header( "C02", req, resp, 5, 5, start, end ) ) return;
        const auto in = range( start, end );
        if ( in.empty() ) { expect_error( "C02", "find-information-empty", req, resp, { 0x0a }, "no attribute in range" ); return; }
        if ( is_error( resp ) ) { violate( "C02", "find-information-not-found", "find-information-not-found", "Find Information 0x%04x..0x%04x answered error 0x%02x although %zu attributes are in range", start, end, resp[ 4 ], in.size() ); return; }
        if ( resp.size() < 2 || ( resp[ 1 ] != 1 && resp[ 1 ] != 2 ) ) { violate( "C02", "find-information-format", "find-information-format", "malformed Find Information Response %s", sim::hex( resp ).c_str() ); return; }
        const std::size_t tsize = resp[ 1 ] == 1 ? 4 : 18;
        if ( ( resp.size() - 2 ) % tsize != 0 || resp.size() == 2 ) { violate( "C02", "find-information-format", "find-information-format length", "Find Information Response of %zu bytes with format %u", resp.size(), resp[ 1 ] ); return; }
        std::size_t k = 0;
        bool reported_skip = false;
        for ( std::size_t p = 2; p < resp.size(); p += tsize, ++k )
        {
            const std::uint16_t h = rd16( &resp[ p ] );
            const bytes type( resp.begin() + static_cast< long >( p + 2 ), resp.begin() + static_cast< long >( p + tsize ) );
            if ( k >= in.size() || in[ k ]->handle != h )
            {
                const bool skipped = k < in.size() && in[ k ]->handle < h;
                bool by_size = skipped;
                for ( std::size_t q = k; skipped && q < in.size() && in[ q ]->handle < h; ++q )
                {
                    if ( m_.type_of( *in[ q ] ).size() + 2 == tsize ) by_size = false;     // same UUID size as the response format: nothing explains the skip
                    else skipped_by_size_.insert( in[ q ]->handle );
                }
                if ( !reported_skip )
                    violate( "C02", "find-information-sequence", skipped ? ( by_size ? "find-information-skips different-uuid-size" : "find-information-skips" ) : "find-information-out-of-range", "entry %zu of the Find Information Response 0x%04x..0x%04x is handle 0x%04x, the %zu. attribute in range is 0x%04x: %s",
                             k, start, end, h, k + 1, k < in.size() ? in[ k ]->handle : 0, k < in.size() && in[ k ]->handle < h ? "an attribute was skipped, iterating from the last handle never returns it" : "handle outside the range or not an attribute" );
                if ( !( skipped && by_size ) ) return;
                // keep checking the rest of the response behind the attributes that were left out because of their UUID size
                reported_skip = true;
                while ( k < in.size() && in[ k ]->handle < h ) ++k;
                if ( k >= in.size() || in[ k ]->handle != h ) return;
            }
            if ( m_.type_of( *in[ k ] ) != type )
            {
                violate( "C02", "find-information-type", "find-information-type", "handle 0x%04x reported with type %s, model %s", h, sim::hex( type ).c_str(), sim::hex( m_.type_of( *in[ k ] ) ).c_str() );
                return;
            }
        }
    }

    std::vector< const service_desc* > primaries( std::uint16_t start, std::uint16_t end, const bytes* uuid ) const
    {
        std::vector< const service_desc* > r;
        for ( std::size_t i = 0; i != cfg_.n_services; ++i )
        {
            const service_desc& s = cfg_.services[ i ];
            if ( !s.primary || s.start < start || s.start > end ) continue;
            if ( uuid && bytes( s.uuid, s.uuid + s.uuid_len ) != *uuid ) continue;
            r.push_back( &s );
        }
        return r;
    }

    void check_find_by_type_value( unsigned, const bytes& req, const bytes& resp )
    {
        if ( req.size() < 7 ) { expect_error( "C01", "malformed-range-request", req, resp, {}, "wrong length" ); return; }
        const std::uint16_t start = rd16( &req[ 1 ] ), end = rd16( &req[ 3 ] ), type = rd16( &req[ 5 ] );
        if ( req.size() != 9 && req.size() != 23 ) { expect_error( "C01", "malformed-range-request", req, resp, {}, "wrong length" ); return; }
        if ( start == 0 || start > end ) { expect_error( "C03", "invalid-range", req, resp, { 0x01 }, "start handle 0 or start > end" ); return; }
        if ( type != 0x2800 ) return;   // only «Primary Service» with a 16 or 128 bit value is covered by C03
        const bytes uuid( req.begin() + 7, req.end() );
        const auto match = primaries( start, end, &uuid );
        if ( match.empty() ) { expect_error( "C03", "find-by-type-value-empty", req, resp, { 0x0a }, "no primary service with this UUID starts in the range" ); return; }
        if ( is_error( resp ) ) { violate( "C03", "find-by-type-value-not-found", "find-by-type-value-not-found", "Find By Type Value 0x%04x..0x%04x uuid %s answered error 0x%02x although %zu primary services match", start, end, sim::hex( uuid ).c_str(), resp[ 4 ], match.size() ); return; }
        if ( resp.size() < 5 || ( resp.size() - 1 ) % 4 != 0 ) { violate( "C03", "find-by-type-value-format", "find-by-type-value-format", "malformed Find By Type Value Response %s", sim::hex( resp ).c_str() ); return; }
        std::size_t k = 0;
        for ( std::size_t p = 1; p < resp.size(); p += 4, ++k )
        {
            const std::uint16_t h = rd16( &resp[ p ] ), e = rd16( &resp[ p + 2 ] );
            if ( k >= match.size() || match[ k ]->start != h || match[ k ]->end != e )
            {
                bool secondary = false;
                for ( std::size_t i = 0; i != cfg_.n_services; ++i ) if ( cfg_.services[ i ].start == h && !cfg_.services[ i ].primary ) secondary = true;
                violate( "C03", "find-by-type-value-entry", secondary ? "find-by-type-value secondary-service" : "find-by-type-value-entry", "entry %zu is 0x%04x..0x%04x, the %zu. matching primary service is 0x%04x..0x%04x%s", k, h, e, k + 1,
                         k < match.size() ? match[ k ]->start : 0, k < match.size() ? match[ k ]->end : 0, secondary ? " (a SECONDARY service was reported)" : "" );
                return;
            }
        }
    }

    void check_read_by_group_type( unsigned, const bytes& req, const bytes& resp )
    {
        std::uint16_t start, end;
        if ( !check_range_header( "C02", req, resp, 7, 21, start, end ) ) return;
        if ( req.size() != 7 || rd16( &req[ 5 ] ) != 0x2800 ) { expect_error( "C02", "unsupported-group-type", req, resp, { 0x10, 0x0a }, "only «Primary Service» is a grouping type a client can discover here" ); return; }
        const auto match = primaries( start, end, nullptr );
        if ( match.empty() ) { expect_error( "C02", "read-by-group-type-empty", req, resp, { 0x0a }, "no primary service starts in the range" ); return; }
        if ( is_error( resp ) ) { violate( "C02", "read-by-group-type-not-found", "read-by-group-type-not-found", "Read By Group Type 0x%04x..0x%04x answered error 0x%02x although %zu primary services start in the range", start, end, resp[ 4 ], match.size() ); return; }
        if ( resp.size() < 2 || ( resp[ 1 ] != 6 && resp[ 1 ] != 20 ) || ( resp.size() - 2 ) % resp[ 1 ] != 0 || resp.size() == 2 )
        { violate( "C02", "read-by-group-type-format", "read-by-group-type-format", "malformed Read By Group Type Response %s", sim::hex( resp.data(), std::min< std::size_t >( 24, resp.size() ) ).c_str() ); return; }
        const std::size_t esize = resp[ 1 ];
        std::size_t k = 0;
        for ( std::size_t p = 2; p < resp.size(); p += esize, ++k )
        {
            const std::uint16_t h = rd16( &resp[ p ] ), e = rd16( &resp[ p + 2 ] );
            const bytes uuid( resp.begin() + static_cast< long >( p + 4 ), resp.begin() + static_cast< long >( p + esize ) );
            bool secondary = false, out_of_range = h < start || h > end;
            for ( std::size_t i = 0; i != cfg_.n_services; ++i ) if ( cfg_.services[ i ].start == h && !cfg_.services[ i ].primary ) secondary = true;
            if ( k >= match.size() || match[ k ]->start != h )
            {
                const char* prop = secondary ? "C03" : "C02";
                violate( prop, "read-by-group-type-entry", secondary ? "read-by-group-type secondary-service" : out_of_range ? "read-by-group-type out-of-range" : ( k < match.size() && match[ k ]->start < h ? "read-by-group-type skips" : "read-by-group-type-entry" ),
                         "entry %zu of Read By Group Type 0x%04x..0x%04x is the service at 0x%04x, the %zu. primary service starting in the range is at 0x%04x%s%s", k, start, end, h, k + 1, k < match.size() ? match[ k ]->start : 0,
                         secondary ? " (a SECONDARY service was reported)" : "", out_of_range ? " (outside the requested range)" : "" );
                return;
            }
            if ( match[ k ]->end != e || bytes( match[ k ]->uuid, match[ k ]->uuid + match[ k ]->uuid_len ) != uuid )
            {
                violate( "C03", "read-by-group-type-group", "read-by-group-type-group", "service at 0x%04x reported with end 0x%04x uuid %s, model end 0x%04x uuid %s", h, e, sim::hex( uuid ).c_str(), match[ k ]->end,
                         sim::hex( match[ k ]->uuid, static_cast< std::size_t >( match[ k ]->uuid_len ) ).c_str() );
                return;
            }
        }
    }

    void check_read_by_type( unsigned c, const bytes& req, const bytes& resp )
    {
        model_conn& mc = m_.conns[ c ];
        std::uint16_t start, end;
        if ( !check_range_header( "C02", req, resp, 7, 21, start, end ) ) return;
        const bytes type( req.begin() + 5, req.end() );
        std::vector< const attr_desc* > match;
        for ( const attr_desc* a : range( start, end ) ) if ( m_.type_matches( *a, type ) ) match.push_back( a );
        if ( match.empty() ) { expect_error( "C02", "read-by-type-empty", req, resp, { 0x0a }, "no attribute of this type in range" ); return; }
        const unsigned mtu = m_.mtu( mc );
        // which of them can be read right now (injected handler failures are consumed by the attempt)
        std::vector< model::access > reads;
        for ( const attr_desc* a : match ) reads.push_back( m_.read( *a, mc, 0, std::min< std::size_t >( mtu - 4, 253 ), false ) );
        if ( is_error( resp ) )
        {
            for ( std::size_t k = 0; k != match.size(); ++k )
                if ( reads[ k ].ok && !reads[ k ].handler_called )
                {
                    violate( "C02", "read-by-type-not-found", type.size() == 16 && m_.type_of( *match[ k ] ).size() == 16 ? "read-by-type-not-found 128-bit-type" : "read-by-type-not-found", "Read By Type 0x%04x..0x%04x type %s answered error 0x%02x although handle 0x%04x matches and is readable", start, end, sim::hex( type ).c_str(), resp[ 4 ], match[ k ]->handle );
                    break;
                }
            sync_handler_counters();
            return;
        }
        if ( resp.size() < 4 || resp[ 1 ] < 2 || ( resp.size() - 2 ) % resp[ 1 ] != 0 )
        { violate( "C02", "read-by-type-format", "read-by-type-format", "malformed Read By Type Response %s", sim::hex( resp.data(), std::min< std::size_t >( 24, resp.size() ) ).c_str() ); sync_handler_counters(); return; }
        const std::size_t esize = resp[ 1 ];
        std::size_t k = 0;
        bool reported_size_skip = false;
        for ( std::size_t p = 2; p < resp.size(); p += esize )
        {
            const std::uint16_t h = rd16( &resp[ p ] );
            const bytes value( resp.begin() + static_cast< long >( p + 2 ), resp.begin() + static_cast< long >( p + esize ) );
            // every attribute between the previous entry and this one must be unreadable: a skipped readable attribute is lost to an iterating client
            while ( k < match.size() && match[ k ]->handle < h )
            {
                if ( reads[ k ].ok && !reads[ k ].handler_called )
                {
                    const bool by_size = reads[ k ].data.size() != value.size();
                    if ( by_size ) skipped_by_size_.insert( match[ k ]->handle );
                    if ( !by_size || !reported_size_skip )
                        violate( "C02", "read-by-type-sequence", by_size ? "read-by-type-skips different-length" : "read-by-type-skips", "Read By Type 0x%04x..0x%04x type %s returned handle 0x%04x but skipped the matching readable handle 0x%04x (value length %zu vs %zu): iterating from the last handle never returns it",
                                 start, end, sim::hex( type ).c_str(), h, match[ k ]->handle, reads[ k ].data.size(), value.size() );
                    if ( !by_size ) { sync_handler_counters(); return; }
                    reported_size_skip = true;        // known behaviour: keep checking the rest of the response
                }
                ++k;
            }
            if ( k >= match.size() || match[ k ]->handle != h )
            {
                const attr_desc* a = m_.find( h );
                violate( "C02", "read-by-type-sequence", h < start || h > end ? "read-by-type out-of-range" : ( a ? "read-by-type wrong-type" : "read-by-type no-such-handle" ), "Read By Type 0x%04x..0x%04x type %s returned handle 0x%04x which is %s",
                         start, end, sim::hex( type ).c_str(), h, h < start || h > end ? "outside the range" : ( a ? "not of the requested type" : "no attribute" ) );
                sync_handler_counters();
                return;
            }
            if ( m_.protected_attr( *match[ k ] ) && !mc.encrypted )
                violate( "C05", "protected-read", "protected-read by-type", "Read By Type returned the value of handle 0x%04x which requires encryption on an unencrypted link", h );
            else if ( reads[ k ].ok && !reads[ k ].handler_called && reads[ k ].data != value )
                violate( "C06", "read-by-type-value", "read-by-type-value", "Read By Type returned %s for handle 0x%04x, model %s", sim::hex( value.data(), std::min< std::size_t >( 16, value.size() ) ).c_str(), h, sim::hex( reads[ k ].data.data(), std::min< std::size_t >( 16, reads[ k ].data.size() ) ).c_str() );
            else if ( !reads[ k ].ok && !reads[ k ].handler_called )
                violate( "C06", "read-by-type-permission", unreadable_handler_value( *match[ k ] ) ? "read-by-type-permission handler-value-no-read-access" : "read-by-type-permission", "Read By Type returned handle 0x%04x which cannot be read", h );
            ++k;
        }
        sync_handler_counters();
    }

    // Read By Type may or may not have invoked handlers (it stops when the buffer is full): adopt the real counters and injected-failure flags
    void sync_handler_counters()
    {
        for ( std::size_t i = 0; i != cfg_.n_chars; ++i )
            if ( cfg_.chars[ i ].store )
            {
                m_.handler_reads[ i ] = cfg_.chars[ i ].store->reads;
                m_.fail_read[ i ] = cfg_.chars[ i ].store->fail_read;
            }
    }

    void check_prepare_write( unsigned c, const bytes& req, const bytes& resp )
    {
        model_conn& mc = m_.conns[ c ];
        if ( cfg_.queue == 0 ) { expect_error( "C07", "prepare-without-queue", req, resp, { 0x06 }, "the server has no write queue" ); return; }
        if ( req.size() < 5 ) { expect_error( "C01", "malformed-write", req, resp, {}, "wrong length" ); return; }
        const std::uint16_t handle = rd16( &req[ 1 ] ), offset = rd16( &req[ 3 ] );
        const attr_desc* a = m_.find( handle );
        if ( !a ) { expect_error( "C07", "prepare-unknown-handle", req, resp, { 0x01 }, "no attribute with this handle" ); return; }
        const model::access perm = m_.write_permission( *a, mc );
        if ( !perm.ok )
        {
            if ( !is_error( resp ) && m_.protected_attr( *a ) && !mc.encrypted )
                violate( "C05", "protected-write", "protected-write prepare", "handle 0x%04x requires encryption, the link is not encrypted, and the prepared write was accepted", handle );
            else
                expect_error( sec_property( perm, mc ), "prepare-rejected", req, resp, perm.any_error ? std::set< int >() : perm.errors, "a Write Request to this attribute on this connection is not permitted" );
            return;
        }
        const std::size_t need = req.size() - 1 + 2;
        const bool other_owner = m_.queue_owner >= 0 && m_.queue_owner != static_cast< int >( c );
        if ( other_owner ) ++stats_.queue_conflict;
        if ( other_owner || m_.queue_used + need > static_cast< std::size_t >( cfg_.queue ) )
        {
            expect_error( "C07", other_owner ? "prepare-while-owned" : "prepare-queue-full", req, resp, { 0x09 }, other_owner ? "another client holds the write queue" : "the queue has no room" );
            return;
        }
        bytes expect{ 0x17 };
        expect.insert( expect.end(), req.begin() + 1, req.end() );
        if ( expect.size() > m_.mtu( mc ) ) expect.resize( m_.mtu( mc ) );
        if ( resp != expect )
        {
            const bool sec = m_.protected_attr( *a ) && is_error( resp ) && ( resp[ 4 ] == 0x05 || resp[ 4 ] == 0x0f );
            violate( "C07", "prepare-refused", is_error( resp ) ? ( sec ? "prepare-refused security-of-encrypted-link" : ( resp[ 4 ] == 0x09 ? "prepare-refused queue-full" : "prepare-refused" ) ) : "prepare-response",
                     "Prepare Write to handle 0x%04x (a Write Request would be permitted; queue %zu/%d used, owner %d) answered %s, expected %s", handle, m_.queue_used, cfg_.queue, m_.queue_owner,
                     sim::hex( resp.data(), std::min< std::size_t >( 16, resp.size() ) ).c_str(), sim::hex( expect.data(), std::min< std::size_t >( 16, expect.size() ) ).c_str() );
            return;
        }
        ++stats_.prepared;
        m_.queue_owner = static_cast< int >( c );
        m_.queue_used += need;
        m_.queue.push_back( queued_write{ handle, offset, bytes( req.begin() + 5, req.end() ) } );
    }

    void check_execute_write( unsigned c, const bytes& req, const bytes& resp )
    {
        model_conn& mc = m_.conns[ c ];
        if ( cfg_.queue == 0 ) { expect_error( "C07", "execute-without-queue", req, resp, { 0x06 }, "the server has no write queue" ); return; }
        if ( req.size() != 2 || req[ 1 ] > 1 ) { expect_error( "C01", "malformed-write", req, resp, {}, "wrong length or flag" ); return; }
        const bool owner = m_.queue_owner == static_cast< int >( c );
        bool failed = false;
        if ( owner && req[ 1 ] == 1 )
        {
            for ( const auto& q : m_.queue )
            {
                const attr_desc* a = m_.find( q.handle );
                const model::access w = m_.write( *a, mc, q.offset, q.value );
                if ( !w.ok )
                {
                    failed = true;
                    expect_error( "C07", "execute-rejected", req, resp, {}, "a queued write cannot be applied" );
                    break;
                }
                ++stats_.executed;
            }
        }
        if ( owner ) { m_.queue_owner = -1; m_.queue.clear(); m_.queue_used = 0; }
        if ( !failed && resp != bytes{ 0x19 } )
            violate( "C07", "execute-response", "execute-response", "Execute Write (flag %u, %s) answered %s", req[ 1 ], owner ? "queue owner" : "no queued writes", sim::hex( resp ).c_str() );
    }

    // ------------------------------------------------------------------------------------------------ server initiated PDUs
    bool deliverable( const model_conn& mc, std::size_t ci, bool indication ) const
    {
        const char_desc& ch = cfg_.chars[ ci ];
        if ( ch.cccd_index < 0 ) return false;
        const std::uint8_t flags = mc.cccd[ static_cast< std::size_t >( ch.cccd_index ) ];
        if ( !( flags & ( indication ? 2 : 1 ) ) ) return false;
        if ( ch.encrypted && !mc.encrypted ) return false;
        if ( !ch.readable && !ch.handler_read ) return false;
        if ( ch.kind == v_handler && m_.fail_read[ ci ] ) return false;
        return true;
    }

    bool poll( unsigned c, std::size_t size_arg )
    {
        model_conn& mc = m_.conns[ c ];
        if ( !mc.live ) return false;
        // l2cap.hpp hands the largest channel MTU to l2cap_output; other buffer sizes from 23 up are tried too
        std::size_t out_cap = static_cast< std::size_t >( cfg_.max_mtu );
        if ( size_arg ) out_cap = 23 + size_arg % 240;
        std::unique_ptr< std::uint8_t[] > out( new std::uint8_t[ out_cap ] );
        std::size_t out_size = out_cap;
        server_->l2cap_output( out.get(), out_size, *conns_[ c ] );
        if ( out_size > out_cap ) { violate( "C01", "output-size", "output-size poll", "l2cap_output reports %zu bytes for a buffer of %zu", out_size, out_cap ); stop_ = true; return false; }
        const bytes pdu( out.get(), out.get() + out_size );
        res_->note( "c%u poll(%zu) -> %s", c, out_cap, sim::hex( pdu.data(), std::min< std::size_t >( 24, pdu.size() ) ).c_str() );
        const unsigned mtu = m_.mtu( mc );
        if ( pdu.empty() )
        {
            // an entry that cannot be delivered right now may have been dequeued and dropped: its fate is unknown from here on
            bool undeliverable = false;
            for ( std::size_t ci = 0; ci != cfg_.n_chars; ++ci )
            {
                if ( mc.pend_n[ ci ] && !deliverable( mc, ci, false ) ) { mc.pend_n[ ci ] = 2; undeliverable = true; }
                if ( mc.pend_i[ ci ] && !deliverable( mc, ci, true ) ) { mc.pend_i[ ci ] = 2; undeliverable = true; }
            }
            if ( !undeliverable )
                for ( std::size_t ci = 0; ci != cfg_.n_chars; ++ci )
                {
                    if ( mc.pend_n[ ci ] == 1 && deliverable( mc, ci, false ) )
                    { violate( "C10", "notification-not-sent", "notification-not-sent", "connection %u: notification for characteristic %zu (handle 0x%04x) is pending, subscribed and readable, but nothing was sent", c, ci, cfg_.chars[ ci ].value_handle ); break; }
                    if ( mc.pend_i[ ci ] == 1 && !mc.outstanding && deliverable( mc, ci, true ) )
                    { violate( "C11", "indication-not-sent", "indication-not-sent", "connection %u: indication for characteristic %zu (handle 0x%04x) is pending, subscribed, readable and none is outstanding, but nothing was sent", c, ci, cfg_.chars[ ci ].value_handle ); break; }
                }
            sync_handler_counters();
            return false;
        }
        if ( pdu.size() < 3 || ( pdu[ 0 ] != 0x1b && pdu[ 0 ] != 0x1d ) )
        { violate( "C10", "server-pdu-format", "server-pdu-format", "l2cap_output produced %s", sim::hex( pdu.data(), std::min< std::size_t >( 16, pdu.size() ) ).c_str() ); sync_handler_counters(); return true; }
        const bool indication = pdu[ 0 ] == 0x1d;
        if ( indication ) ++stats_.indications; else ++stats_.notifications;
        const std::uint16_t h = rd16( &pdu[ 1 ] );
        if ( pdu.size() > mtu )
            violate( "C08", "notification-exceeds-mtu", "notification-exceeds-mtu", "connection %u: %s of %zu bytes exceeds the negotiated MTU %u (server maximum %d, buffer %zu)", c, indication ? "indication" : "notification", pdu.size(), mtu, cfg_.max_mtu, out_cap );
        int ci = -1;
        for ( std::size_t i = 0; i != cfg_.n_chars; ++i ) if ( cfg_.chars[ i ].value_handle == h && cfg_.chars[ i ].cccd_index >= 0 ) ci = static_cast< int >( i );
        if ( ci < 0 ) { violate( "C10", "notification-handle", "notification-handle unknown", "%s carries handle 0x%04x which is no value handle of a notifying characteristic", indication ? "indication" : "notification", h ); sync_handler_counters(); return true; }
        const std::size_t u = static_cast< std::size_t >( ci );
        const char_desc& ch = cfg_.chars[ u ];
        std::vector< int >& pend = indication ? mc.pend_i : mc.pend_n;
        if ( !pend[ u ] )
        {
            bool other = false;
            for ( std::size_t i = 0; i != cfg_.n_chars; ++i ) if ( pend[ i ] ) other = true;
            violate( "C10", "notification-handle", other ? "notification-handle wrong-characteristic" : "notification-handle not-requested", "connection %u: %s for characteristic %zu (handle 0x%04x) was not requested%s", c, indication ? "indication" : "notification", u, h,
                     other ? "; a request for another characteristic is pending" : " (or was already sent)" );
        }
        pend[ u ] = 0;
        const std::uint8_t flags = mc.cccd[ static_cast< std::size_t >( ch.cccd_index ) ];
        if ( !( flags & ( indication ? 2 : 1 ) ) )
            violate( "C10", "notification-unsubscribed", "notification-unsubscribed", "connection %u is not subscribed for %s of characteristic %zu (CCCD %u) but got one", c, indication ? "indications" : "notifications", u, flags );
        if ( ch.encrypted && !mc.encrypted )
            violate( "C05", "protected-notification", "protected-notification", "connection %u is not encrypted but got the value of characteristic %zu, which requires encryption, in a %s", c, u, indication ? "indication" : "notification" );
        if ( indication )
        {
            if ( mc.outstanding )
                violate( "C11", "second-indication", "second-indication", "connection %u: indication for handle 0x%04x sent while the indication for characteristic %d is not confirmed", c, h, mc.outstanding_char );
            mc.outstanding = true; mc.outstanding_char = ci;
        }
        // payload: the current value, truncated to what fits
        const bytes& v = m_.values[ u ];
        const std::size_t room = std::min< std::size_t >( std::min< std::size_t >( mtu, out_cap ) - 3, v.size() );
        const bytes payload( pdu.begin() + 3, pdu.end() );
        const bool prefix_ok = payload.size() <= v.size() && std::equal( payload.begin(), payload.end(), v.begin() );
        if ( !prefix_ok )
            violate( "C10", "notification-value", "notification-value", "%s for characteristic %zu carries %s, current value %s", indication ? "indication" : "notification", u, sim::hex( payload.data(), std::min< std::size_t >( 16, payload.size() ) ).c_str(),
                     sim::hex( v.data(), std::min< std::size_t >( 16, v.size() ) ).c_str() );
        else if ( payload.size() < room && pdu.size() <= mtu )
            violate( "C10", "notification-value", "notification-value short", "%s for characteristic %zu carries %zu of %zu value bytes although %zu fit", indication ? "indication" : "notification", u, payload.size(), v.size(), room );
        sync_handler_counters();
        return true;
    }

    void app_request( std::int64_t which, bool indication, bool by_uuid )
    {
        // pick among the characteristics that can do this kind
        std::vector< std::size_t > able;
        for ( std::size_t i = 0; i != cfg_.n_chars; ++i )
            if ( cfg_.chars[ i ].cccd_index >= 0 && ( indication ? cfg_.chars[ i ].indicate : cfg_.chars[ i ].notify ) ) able.push_back( i );
        if ( able.empty() ) return;
        const std::size_t ci = able[ static_cast< std::size_t >( ( ( which % static_cast< std::int64_t >( able.size() ) ) + static_cast< std::int64_t >( able.size() ) ) % static_cast< std::int64_t >( able.size() ) ) ];
        const bool r = app_( *server_, static_cast< int >( ci ), indication, by_uuid );
        res_->note( "app %s char %zu %s -> %d", indication ? "indicate" : "notify", ci, by_uuid ? "by uuid" : "by value", r );
        for ( unsigned c = 0; c != n_conns_; ++c )
            if ( m_.conns[ c ].live ) ( indication ? m_.conns[ c ].pend_i : m_.conns[ c ].pend_n )[ ci ] = 1;
    }

    void app_set( std::int64_t which, std::int64_t seed )
    {
        std::vector< std::size_t > able;
        for ( std::size_t i = 0; i != cfg_.n_chars; ++i ) if ( cfg_.chars[ i ].ptr || cfg_.chars[ i ].store ) able.push_back( i );
        if ( able.empty() ) return;
        const std::size_t ci = able[ static_cast< std::size_t >( ( ( which % static_cast< std::int64_t >( able.size() ) ) + static_cast< std::int64_t >( able.size() ) ) % static_cast< std::int64_t >( able.size() ) ) ];
        const char_desc& ch = cfg_.chars[ ci ];
        bytes& v = m_.values[ ci ];
        if ( ch.store )
        {
            const std::size_t len = static_cast< std::size_t >( ( ( seed % ( ch.size + 1 ) ) + ( ch.size + 1 ) ) % ( ch.size + 1 ) );
            v.resize( len );
            for ( std::size_t i = 0; i != len; ++i ) v[ i ] = static_cast< std::uint8_t >( seed * 7 + static_cast< std::int64_t >( i ) * 3 + 1 );
            std::memcpy( ch.store->bytes, v.data(), len );
            ch.store->len = len;
        }
        else
        {
            for ( std::size_t i = 0; i != v.size(); ++i ) v[ i ] = static_cast< std::uint8_t >( seed * 5 + static_cast< std::int64_t >( i ) * 11 + 2 );
            std::memcpy( ch.ptr, v.data(), v.size() );
        }
        res_->note( "app sets char %zu", ci );
    }

    void disconnect( unsigned c, bool same_address )
    {
        model_conn& mc = m_.conns[ c ];
        res_->fault( same_address ? "disconnect_reconnect_same_object" : "disconnect_reconnect_new_object" );
        server_->client_disconnected( *conns_[ c ] );
        if ( same_address ) *conns_[ c ] = connection_t();       // what link_layer does: connection_data_ = connection_data_t()
        else
        {
            std::unique_ptr< connection_t > fresh( new connection_t );
            conns_[ c ].swap( fresh );
        }
        if ( m_.queue_owner == static_cast< int >( c ) ) { m_.queue_owner = -1; m_.queue.clear(); m_.queue_used = 0; }
        m_.reset_conn( mc );
        res_->note( "c%u disconnect/reconnect %s", c, same_address ? "same object" : "new object" );
    }

    void security( unsigned c, int state )
    {
        model_conn& mc = m_.conns[ c ];
        static const bool enc[] = { false, false, true, true };
        static const bluetoe::device_pairing_status ps[] = { bluetoe::device_pairing_status::no_key, bluetoe::device_pairing_status::unauthenticated_key,
                                                             bluetoe::device_pairing_status::unauthenticated_key, bluetoe::device_pairing_status::authenticated_key };
        conns_[ c ]->is_encrypted( enc[ state ] );
        conns_[ c ]->pairing_status( ps[ state ] );
        mc.encrypted = enc[ state ];
        mc.pairing = state == 0 ? 0 : ( state == 3 ? 2 : 1 );
        res_->fault( "link_security_change" );
        res_->note( "c%u security %d", c, state );
    }

    void fail_next( std::int64_t which, bool write, std::uint8_t code )
    {
        std::vector< std::size_t > able;
        for ( std::size_t i = 0; i != cfg_.n_chars; ++i ) if ( cfg_.chars[ i ].store ) able.push_back( i );
        if ( able.empty() ) return;
        const std::size_t ci = able[ static_cast< std::size_t >( ( ( which % static_cast< std::int64_t >( able.size() ) ) + static_cast< std::int64_t >( able.size() ) ) % static_cast< std::int64_t >( able.size() ) ) ];
        static const std::uint8_t codes[] = { 0x80, 0x81, 0x0e, 0x08 };
        const std::uint8_t e = codes[ code % 4 ];
        ( write ? cfg_.chars[ ci ].store->fail_write : cfg_.chars[ ci ].store->fail_read ) = e;
        ( write ? m_.fail_write : m_.fail_read )[ ci ] = e;
        res_->fault( write ? "handler_write_error" : "handler_read_error" );
        res_->note( "handler %zu fails next %s with 0x%02x", ci, write ? "write" : "read", e );
    }

    // ------------------------------------------------------------------------------------------------ complete discovery procedures
    void discover( unsigned c, int kind, const bytes& type, std::uint16_t start, std::uint16_t end )
    {
        model_conn& mc = m_.conns[ c ];
        if ( !mc.live ) return;
        if ( start == 0 ) start = 1;
        if ( end < start ) end = 0xffff;
        ++stats_.discoveries;
        kind = ( ( kind % 4 ) + 4 ) % 4;
        std::vector< std::uint16_t > seen;
        std::uint16_t from = start;
        const std::size_t limit = cfg_.n_attrs + 3;
        res_->note( "c%u discovery kind %d 0x%04x..0x%04x", c, kind, start, end );
        skipped_by_size_.clear();
        for ( std::size_t step = 0; step <= limit; ++step )
        {
            bytes req;
            switch ( kind )
            {
            case 0: req = { 0x04, static_cast< std::uint8_t >( from ), static_cast< std::uint8_t >( from >> 8 ), static_cast< std::uint8_t >( end ), static_cast< std::uint8_t >( end >> 8 ) }; break;
            case 1: req = { 0x08, static_cast< std::uint8_t >( from ), static_cast< std::uint8_t >( from >> 8 ), static_cast< std::uint8_t >( end ), static_cast< std::uint8_t >( end >> 8 ) }; req.insert( req.end(), type.begin(), type.end() ); break;
            case 2: req = { 0x10, static_cast< std::uint8_t >( from ), static_cast< std::uint8_t >( from >> 8 ), static_cast< std::uint8_t >( end ), static_cast< std::uint8_t >( end >> 8 ), 0x00, 0x28 }; break;
            case 3: req = { 0x06, static_cast< std::uint8_t >( from ), static_cast< std::uint8_t >( from >> 8 ), static_cast< std::uint8_t >( end ), static_cast< std::uint8_t >( end >> 8 ), 0x00, 0x28 }; req.insert( req.end(), type.begin(), type.end() ); break;
            }
            if ( ( kind == 1 || kind == 3 ) && type.size() != 2 && type.size() != 16 ) return;
            const bytes resp = request( c, req, true );
            if ( stop_ || resp.empty() ) return;
            if ( resp[ 0 ] == 0x01 ) break;
            std::uint16_t last = 0;
            if ( kind == 0 && resp.size() > 2 ) { const std::size_t t = resp[ 1 ] == 1 ? 4 : 18; for ( std::size_t p = 2; p + t <= resp.size(); p += t ) { seen.push_back( rd16( &resp[ p ] ) ); last = rd16( &resp[ p ] ); } }
            if ( kind == 1 && resp.size() > 2 && resp[ 1 ] >= 2 ) { for ( std::size_t p = 2; p + resp[ 1 ] <= resp.size(); p += resp[ 1 ] ) { seen.push_back( rd16( &resp[ p ] ) ); last = rd16( &resp[ p ] ); } }
            if ( kind == 2 && resp.size() > 2 && resp[ 1 ] >= 4 ) { for ( std::size_t p = 2; p + resp[ 1 ] <= resp.size(); p += resp[ 1 ] ) { seen.push_back( rd16( &resp[ p ] ) ); last = rd16( &resp[ p + 2 ] ); } }
            if ( kind == 3 ) { for ( std::size_t p = 1; p + 4 <= resp.size(); p += 4 ) { seen.push_back( rd16( &resp[ p ] ) ); last = rd16( &resp[ p + 2 ] ); } }
            if ( last == 0 || last < from )
            {
                violate( "C02", "discovery-no-progress", "discovery-no-progress", "discovery kind %d from 0x%04x: response %s does not advance", kind, from, sim::hex( resp.data(), std::min< std::size_t >( 16, resp.size() ) ).c_str() );
                return;
            }
            if ( last >= end || last == 0xffff ) break;
            from = static_cast< std::uint16_t >( last + 1 );
            if ( step == limit ) { violate( "C02", "discovery-does-not-terminate", "discovery-does-not-terminate", "discovery kind %d 0x%04x..0x%04x needs more than %zu requests", kind, start, end, limit ); return; }
        }
        // history check: every matching attribute exactly once, ascending
        std::vector< std::uint16_t > expect;
        if ( kind == 0 ) for ( const attr_desc* a : range( start, end ) ) expect.push_back( a->handle );
        if ( kind == 1 ) for ( const attr_desc* a : range( start, end ) ) if ( m_.type_matches( *a, type ) ) expect.push_back( a->handle );
        if ( kind == 2 ) for ( const service_desc* s : primaries( start, end, nullptr ) ) expect.push_back( s->start );
        if ( kind == 3 ) for ( const service_desc* s : primaries( start, end, &type ) ) expect.push_back( s->start );
        if ( kind == 1 )
        {
            // unreadable attributes may be left out; nothing else may
            std::vector< std::uint16_t > must;
            for ( std::uint16_t h : expect )
            {
                const attr_desc* a = m_.find( h );
                const model::access r = m_.read( *a, mc, 0, 1, false );
                if ( r.ok && !r.handler_called ) must.push_back( h );
            }
            for ( std::uint16_t h : must )
                if ( std::count( seen.begin(), seen.end(), h ) != 1 )
                { violate( "C02", "discovery-incomplete", type.size() == 16 ? "discovery-incomplete read-by-type 128-bit-type" : ( std::count( seen.begin(), seen.end(), h ) == 0 && skipped_by_size_.count( h ) ? "discovery-incomplete read-by-type skipped-by-size" : "discovery-incomplete read-by-type" ), "iterated Read By Type %s over 0x%04x..0x%04x returned handle 0x%04x %ld times", sim::hex( type ).c_str(), start, end, h, (long)std::count( seen.begin(), seen.end(), h ) ); return; }
            for ( std::uint16_t h : seen )
                if ( !std::count( expect.begin(), expect.end(), h ) )
                { violate( "C02", "discovery-extra", "discovery-extra read-by-type", "iterated Read By Type %s over 0x%04x..0x%04x returned handle 0x%04x which does not match", sim::hex( type ).c_str(), start, end, h ); return; }
            return;
        }
        if ( seen != expect )
        {
            const char* prop = kind >= 2 ? "C03" : "C02";
            // is every difference an attribute that a response left out because of its size?
            bool only_size_skips = kind == 0;
            for ( std::uint16_t h : seen ) if ( !std::count( expect.begin(), expect.end(), h ) || std::count( seen.begin(), seen.end(), h ) != 1 ) only_size_skips = false;
            for ( std::uint16_t h : expect ) if ( !std::count( seen.begin(), seen.end(), h ) && !skipped_by_size_.count( h ) ) only_size_skips = false;
            violate( prop, "discovery-result", kind == 0 ? ( only_size_skips ? "discovery-result find-information skipped-by-size" : "discovery-result find-information" ) : kind == 2 ? "discovery-result primary-services" : "discovery-result primary-service-by-uuid",
                     "complete discovery (kind %d) over 0x%04x..0x%04x enumerated %zu entries, the model has %zu", kind, start, end, seen.size(), expect.size() );
        }
    }

    // ------------------------------------------------------------------------------------------------ invariants after every op
    void compare_stores( long )
    {
        for ( std::size_t i = 0; i != cfg_.n_chars; ++i )
        {
            const char_desc& ch = cfg_.chars[ i ];
            const bytes& v = m_.values[ i ];
            if ( ch.ptr && std::memcmp( ch.ptr, v.data(), v.size() ) != 0 )
            {
                violate( classify_store_violation(), "value-store", std::string( "value-store bound " ) + last_op_class(), "bound value of characteristic %zu (handle 0x%04x) is %s, model %s", i, ch.value_handle,
                         sim::hex( ch.ptr, std::min< std::size_t >( 16, v.size() ) ).c_str(), sim::hex( v.data(), std::min< std::size_t >( 16, v.size() ) ).c_str() );
                std::memcpy( ch.ptr, v.data(), v.size() );
            }
            if ( ch.store )
            {
                if ( ch.store->len != v.size() || std::memcmp( ch.store->bytes, v.data(), v.size() ) != 0 )
                {
                    violate( classify_store_violation(), "value-store", std::string( "value-store handler " ) + last_op_class(), "handler value of characteristic %zu (handle 0x%04x) is %s (len %zu), model %s (len %zu)", i, ch.value_handle,
                             sim::hex( ch.store->bytes, std::min< std::size_t >( 16, ch.store->len ) ).c_str(), ch.store->len, sim::hex( v.data(), std::min< std::size_t >( 16, v.size() ) ).c_str(), v.size() );
                    ch.store->len = v.size();
                    std::memcpy( ch.store->bytes, v.data(), v.size() );
                }
                if ( ch.store->writes != m_.handler_writes[ i ] )
                {
                    violate( classify_store_violation(), "handler-calls", std::string( "handler-calls write " ) + last_op_class(), "write handler of characteristic %zu was called %u times, model %u", i, ch.store->writes, m_.handler_writes[ i ] );
                    m_.handler_writes[ i ] = ch.store->writes;
                    m_.fail_write[ i ] = ch.store->fail_write;
                }
                if ( ch.store->reads != m_.handler_reads[ i ] )
                {
                    if ( !ch.readable && ch.store->reads > m_.handler_reads[ i ] )
                        violate( "C06", "handler-calls", "handler-calls read of unreadable handler-value-no-read-access", "read handler of characteristic %zu (no read access) was called", i );
                    m_.handler_reads[ i ] = ch.store->reads;
                    m_.fail_read[ i ] = ch.store->fail_read;
                }
            }
        }
        for ( unsigned c = 0; c != n_conns_; ++c )
        {
            if ( cfg_.n_cccd == 0 ) break;
            auto cc = conns_[ c ]->client_configurations();
            for ( int k = 0; k != cfg_.n_cccd; ++k )
            {
                const std::size_t at = static_cast< std::size_t >( cfg_.cccd_storage[ k ] );
                if ( cc.flags( at ) != m_.conns[ c ].cccd[ static_cast< std::size_t >( k ) ] )
                {
                    violate( "C09", "cccd-store", "cccd-store", "connection %u CCCD #%d is %u, model %u", c, k, cc.flags( at ), m_.conns[ c ].cccd[ static_cast< std::size_t >( k ) ] );
                    // the client configuration of a characteristic that requires encryption is protected like its value (C05): on an unencrypted link
                    // nothing the client does may change it
                    if ( !m_.conns[ c ].encrypted )
                        for ( std::size_t ci = 0; ci != cfg_.n_chars; ++ci )
                            if ( cfg_.chars[ ci ].cccd_index == k && cfg_.chars[ ci ].encrypted )
                                violate( "C05", "protected-cccd-changed", "protected-cccd-changed", "connection %u is not encrypted, the client configuration of characteristic %zu (requires encryption) went from %u to %u", c, ci,
                                         m_.conns[ c ].cccd[ static_cast< std::size_t >( k ) ], cc.flags( at ) );
                    m_.conns[ c ].cccd[ static_cast< std::size_t >( k ) ] = static_cast< std::uint8_t >( cc.flags( at ) );
                }
            }
            if ( conns_[ c ]->negotiated_mtu() != m_.mtu( m_.conns[ c ] ) )
            {
                violate( "C08", "mtu-state", "mtu-state", "connection %u negotiated MTU is %u, model %u", c, conns_[ c ]->negotiated_mtu(), m_.mtu( m_.conns[ c ] ) );
                m_.conns[ c ].mtu = conns_[ c ]->negotiated_mtu();
            }
        }
        if ( recorder_->calls != m_.cccd_callbacks )
        {
            violate( "C09", "cccd-callback", recorder_->calls > m_.cccd_callbacks ? "cccd-callback extra" : "cccd-callback missing", "subscription callback invoked %u times, the stored CCCD values changed %u times", recorder_->calls, m_.cccd_callbacks );
            m_.cccd_callbacks = recorder_->calls;
        }
    }

    std::string last_op_class_;
    std::set< std::uint16_t > skipped_by_size_;      // handles a response left out because of their UUID / value size (known behaviour)
    const char* last_op_class() const { return last_op_class_.c_str(); }
    const char* classify_store_violation() const { return last_op_class_ == "prepare" || last_op_class_ == "execute" ? "C07" : "C06"; }

    // ------------------------------------------------------------------------------------------------ bounded liveness
    void drain()
    {
        idx_ = -2;
        for ( unsigned c = 0; c != n_conns_; ++c )
        {
            model_conn& mc = m_.conns[ c ];
            if ( !mc.live ) continue;
            std::size_t pending = 0;
            for ( std::size_t ci = 0; ci != cfg_.n_chars; ++ci ) pending += ( mc.pend_n[ ci ] ? 1 : 0 ) + ( mc.pend_i[ ci ] ? 1 : 0 );
            const std::size_t bound = 2 * ( pending + 1 );
            // an entry that cannot be delivered is dropped by a poll of its own, so an empty poll does not mean that the queue is empty
            for ( std::size_t step = 0; step < bound && !stop_; ++step )
            {
                poll( c, 0 );
                if ( mc.outstanding ) request( c, bytes{ 0x1e }, true );
            }
            for ( std::size_t ci = 0; ci != cfg_.n_chars && !stop_; ++ci )
                if ( mc.pend_i[ ci ] == 1 && deliverable( mc, ci, true ) )
                { violate( "C11", "indication-lost", "indication-lost", "connection %u: indication for characteristic %zu still pending after %zu polls with every indication confirmed", c, ci, bound ); break; }
        }
    }
};

}

#endif
