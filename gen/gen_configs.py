#!/usr/bin/env python3
"""Generates GATT server configurations for gatt_sim.

For every configuration ONE abstract description (python dicts, drawn from a seeded PRNG) is turned into
  (a) the Bluetoe declaration (C++ types), and
  (b) an independent model table (handles, types, permissions, static values),
derived by the documented GATT / Bluetoe rules re-stated here, not by asking Bluetoe.

usage: gen_configs.py <out_dir> <n_configs> [seed]
Writes <out_dir>/gatt_cfg_<i>.cpp for i in 0..n-1 and <out_dir>/gatt_cfg_list.hpp.
Deterministic: python3 stdlib `random.Random(seed)` only.
"""
import os, random, sys

VALUE_KINDS = ['bind', 'bind', 'bind', 'const_bind', 'fixed8', 'fixed16', 'fixed32', 'cstring', 'blob', 'handler_rw', 'handler_r', 'handler_w']
BIND_SIZES = [1, 2, 4, 7, 20, 22, 30, 48]


def le16(v):
    return [v & 0xff, (v >> 8) & 0xff]


def uuid128_bytes(a, b, c, d, e):
    # little endian byte order on the wire
    big = list(a.to_bytes(4, 'big') + b.to_bytes(2, 'big') + c.to_bytes(2, 'big') + d.to_bytes(2, 'big') + e.to_bytes(6, 'big'))
    return list(reversed(big))


class Gen:
    def __init__(self, rng, index):
        self.rng = rng
        self.index = index
        self.uuid_counter = 0

    def fresh_uuid(self, force16=None):
        r = self.rng
        self.uuid_counter += 1
        is16 = r.random() < 0.6 if force16 is None else force16
        if is16:
            v = 0x1000 + self.index * 64 + self.uuid_counter
            return {'is16': True, 'v16': v, 'bytes': le16(v)}
        a, b, c, d, e = 0x8C8B4000 + self.index, 0x0D00 + self.uuid_counter, r.randrange(0x10000), r.randrange(0x10000), r.randrange(1 << 48)
        return {'is16': False, 'parts': (a, b, c, d, e), 'bytes': uuid128_bytes(a, b, c, d, e)}

    def enc_option(self, p_set):
        r = self.rng
        if r.random() >= p_set:
            return None
        return r.choice(['requires_encryption', 'no_encryption_required', 'may_require_encryption'])

    def characteristic(self, want_cccd):
        r = self.rng
        c = {'uuid': self.fresh_uuid(), 'kind': r.choice(VALUE_KINDS), 'opts': [], 'enc': self.enc_option(0.25), 'name': None, 'descriptors': [], 'handles': None}
        k = c['kind']
        if k in ('bind', 'const_bind'):
            c['size'] = r.choice(BIND_SIZES)
        elif k == 'fixed8':
            c['size'] = 1
        elif k == 'fixed16':
            c['size'] = 2
        elif k == 'fixed32':
            c['size'] = 4
        elif k in ('cstring', 'blob'):
            c['size'] = r.choice([0, 1, 5, 21, 22, 23, 40, 60])
        else:
            c['size'] = r.choice([4, 20, 30, 64])    # capacity of the handler's store
        c['init'] = [r.randrange(1, 256) for _ in range(c['size'])]
        if k == 'cstring':
            c['init'] = [r.randrange(0x41, 0x5b) for _ in range(c['size'])]
        can_no_read = k in ('bind', 'const_bind', 'fixed8', 'fixed16', 'fixed32', 'handler_rw')
        can_notify = k in ('bind', 'const_bind', 'fixed8', 'fixed16', 'fixed32', 'handler_rw', 'handler_r')
        if can_no_read and r.random() < 0.15:
            c['opts'].append('no_read_access')
        if k == 'bind' and r.random() < 0.2:
            c['opts'].append('no_write_access')
        if k in ('bind', 'handler_rw', 'handler_w') and 'no_write_access' not in c['opts']:
            x = r.random()
            if x < 0.15:
                c['opts'].append('write_without_response')
            elif x < 0.25:
                c['opts'].append('only_write_without_response')
        if can_notify and want_cccd:
            x = r.random()
            if x < 0.45:
                c['opts'].append('notify')
            elif x < 0.75:
                c['opts'].append('indicate')
            else:
                c['opts'] += ['notify', 'indicate']
        # handler based values need at least one of read/write/notify/indicate: always true for the kinds above
        if k == 'handler_rw' and 'no_read_access' in c['opts'] and not ('notify' in c['opts'] or 'indicate' in c['opts']):
            pass  # write only through no_read_access: allowed (has_write_access)
        if r.random() < 0.2:
            c['name'] = 'name%d' % self.uuid_counter + 'x' * r.choice([0, 3, 25])
        for _ in range(r.choice([0, 0, 1])):      # Bluetoe supports one descriptor<> per characteristic
            self.uuid_counter += 1
            c['descriptors'].append({'uuid16': 0x2910 + self.uuid_counter % 200, 'value': [r.randrange(256) for _ in range(r.choice([1, 2, 8, 30]))]})
        return c

    def config(self):
        r = self.rng
        cfg = {
            'index': self.index,
            'max_mtu': r.choice([23, 23, 24, 40, 65, 100, 185, 247]),
            'queue': r.choice([0, 0, 25, 30, 64, 142, 400]),
            'enc': self.enc_option(0.3),
            'gap': r.random() < 0.35,
            'services': [],
        }
        n_services = r.choice([1, 2, 2, 3, 3, 4, 5])
        n_cccd_target = r.choice([0, 1, 2, 3, 4, 5, 9, 11])
        cccds = 0
        for s in range(n_services):
            svc = {'uuid': self.fresh_uuid(), 'secondary': r.random() < 0.25 and s > 0, 'enc': self.enc_option(0.25), 'chars': [], 'handle': None}
            # services without characteristics only in a few configurations (index % 8 == 3): see known finding C10 'config-with-empty-service'
            n_chars_choices = [0, 1, 1, 2, 2, 3, 4] if self.index % 8 == 3 else [1, 1, 2, 2, 3, 4]
            for _ in range(r.choice(n_chars_choices)):
                want = cccds < n_cccd_target and r.random() < 0.7
                ch = self.characteristic(want)
                if 'notify' in ch['opts'] or 'indicate' in ch['opts']:
                    cccds += 1
                svc['chars'].append(ch)
            cfg['services'].append(svc)
        # make sure the CCCD target is met by adding characteristics to the last service
        while cccds < n_cccd_target:
            ch = self.characteristic(True)
            if 'notify' in ch['opts'] or 'indicate' in ch['opts']:
                cccds += 1
                cfg['services'][-1]['chars'].append(ch)
        if not any(s['chars'] for s in cfg['services']):
            cfg['services'][0]['chars'].append(self.characteristic(False))
        # combinations that random choice reaches too rarely for 16 configurations: a handler based value without read access
        # (write only, and with an indication: what the control points of the CSC and bootloader services are made of)
        if self.index % 8 == 5:
            for want_cccd in (False, True):
                for _ in range(200):
                    ch = self.characteristic(want_cccd)
                    if ch['kind'] == 'handler_rw' and (not want_cccd or 'indicate' in ch['opts']):
                        if 'no_read_access' not in ch['opts']:
                            ch['opts'].append('no_read_access')
                        cfg['services'][0]['chars'].append(ch)
                        break
        self.assign_handles(cfg, r.random() < 0.5)
        self.choose_priorities(cfg)
        return cfg

    # ---- outgoing priorities (index % 4 == 2), drawn from a generator of their own so that everything else stays as it was:
    # a list of services on the server and / or a list of characteristics in one service (lower_outgoing_priority<> is declared by
    # Bluetoe but has no implementation). The model does not depend on the resulting order (C12 judges the queue with given priorities).
    def choose_priorities(self, cfg):
        cfg['prio_server'] = None
        cfg['prio_service'] = None
        if self.index % 4 != 2:
            return
        pr = random.Random(977 * self.index + 13)
        with_cccd = [(si, [ch for ch in svc['chars'] if self.has_cccd(ch)]) for si, svc in enumerate(cfg['services'])]
        with_cccd = [(si, chs) for si, chs in with_cccd if chs]
        total = sum(len(chs) for _, chs in with_cccd)
        multi = [(si, chs) for si, chs in with_cccd if len(chs) >= 2]
        variant = (self.index // 4) % 4          # 0: service list, 1: server list of two, 2: server list of one, 3: both
        # (the compiler needs more than 64 GiB for a service level list in a server with 11 CCCDs)
        if variant in (0, 3) and multi and total <= 6:
            si, chs = multi[-1]
            cfg['prio_service'] = (si, list(reversed(chs))[:pr.choice([1, 2])])
        if variant in (1, 2, 3) and len(with_cccd) >= 2:
            sis = [si for si, _ in with_cccd]
            cfg['prio_server'] = list(reversed(sis))[:2 if variant == 1 else 1]

    # ---- the handle rules of attribute_handle.hpp, re-stated
    def assign_handles(self, cfg, use_fixed):
        r = self.rng
        nxt = 1
        services = list(cfg['services'])
        if cfg['gap']:
            services = services + [self.gap_service()]
            cfg['all_services'] = services
        else:
            cfg['all_services'] = services
        for svc in services:
            fixed = None
            if use_fixed and svc.get('is_gap') is None and r.random() < 0.4:
                fixed = nxt + r.choice([0, 1, 2, 5, 16, 0x100])
            svc['handle'] = fixed
            svc['decl_handle'] = fixed if fixed is not None else nxt
            nxt = svc['decl_handle'] + 1
            for ch in svc['chars']:
                n_attr = 2 + (1 if self.has_cccd(ch) else 0) + (1 if ch['name'] else 0) + len(ch['descriptors'])
                mode = None
                if use_fixed and svc.get('is_gap') is None:
                    x = r.random()
                    if x < 0.2:
                        mode = 'single'
                    elif x < 0.45:
                        mode = 'triple'
                if mode == 'single':
                    d = nxt + r.choice([0, 1, 3, 10])
                    ch['handles'] = ('attribute_handle', d)
                    decl, val, cccd = d, d + 1, d + 2
                elif mode == 'triple':
                    d = nxt + r.choice([0, 1, 3])
                    v = d + r.choice([1, 1, 2, 4])
                    c = 0 if r.random() < 0.4 else v + r.choice([1, 2, 5])
                    ch['handles'] = ('attribute_handles', d, v, c)
                    decl, val, cccd = d, v, (c if c else v + 1)
                else:
                    ch['handles'] = None
                    decl, val, cccd = nxt, nxt + 1, nxt + 2
                hs = [decl, val]
                for k in range(n_attr - 2):
                    hs.append(cccd + k)
                ch['attr_handles'] = hs
                nxt = (val + 1) if n_attr == 2 else (cccd + (n_attr - 2))
            svc['end_handle'] = nxt - 1

    @staticmethod
    def has_cccd(ch):
        return 'notify' in ch['opts'] or 'indicate' in ch['opts']

    def gap_service(self):
        name = [ord(c) for c in 'Bluetoe-Server']
        return {'is_gap': True, 'uuid': {'is16': True, 'v16': 0x1800, 'bytes': le16(0x1800)}, 'secondary': False, 'enc': None, 'handle': None, 'chars': [
            {'uuid': {'is16': True, 'v16': 0x2A00, 'bytes': le16(0x2A00)}, 'kind': 'cstring', 'size': len(name), 'init': name, 'opts': [], 'enc': None, 'name': None, 'descriptors': [], 'handles': None, 'gap': True},
            {'uuid': {'is16': True, 'v16': 0x2A01, 'bytes': le16(0x2A01)}, 'kind': 'fixed16', 'size': 2, 'init': [0, 0], 'opts': [], 'enc': None, 'name': None, 'descriptors': [], 'handles': None, 'gap': True},
        ]}


# ---- semantics re-stated for the model
def enc_value(default, opt):
    if opt == 'requires_encryption':
        return True
    if opt == 'no_encryption_required':
        return False
    return default      # none or may_require_encryption


def readable(ch):
    k = ch['kind']
    if k in ('cstring', 'blob'):
        return True
    if k == 'handler_w':
        return False
    return 'no_read_access' not in ch['opts']


def writable(ch):
    k = ch['kind']
    if k == 'bind':
        return 'no_write_access' not in ch['opts']
    return k in ('handler_rw', 'handler_w')


def cpp_uuid(u, what):
    if u['is16']:
        return 'bluetoe::%s_uuid16< 0x%04X >' % (what, u['v16'])
    a, b, c, d, e = u['parts']
    return 'bluetoe::%s_uuid< 0x%08X, 0x%04X, 0x%04X, 0x%04X, 0x%012X >' % (what, a, b, c, d, e)


def bytes_init(bs):
    return '{ ' + ', '.join('0x%02x' % b for b in bs) + ' }' if bs else '{ 0 }'


def emit(cfg, out):
    i = cfg['index']
    L = []
    A = L.append
    A('// generated by gen/gen_configs.py - do not edit')
    A('#include "../../harness/gatt_world.hpp"')
    A('namespace cfg_%d {' % i)
    chars_flat = []
    for si, svc in enumerate(cfg['all_services']):
        for ch in svc['chars']:
            ch['si'] = si
            ch['ci'] = len(chars_flat)
            chars_flat.append(ch)
    # storage
    for ch in chars_flat:
        n, k, ci = max(ch['size'], 1), ch['kind'], ch['ci']
        if ch.get('gap'):
            continue
        if k == 'bind':
            A('std::uint8_t value_%d[ %d ];' % (ci, ch['size']))
        elif k == 'const_bind':
            A('extern const std::uint8_t value_%d[ %d ];' % (ci, ch['size']))
            A('const std::uint8_t value_%d[ %d ] = %s;' % (ci, ch['size'], bytes_init(ch['init'])))
        elif k == 'cstring':
            A('extern const char text_%d[];' % ci)
            A('const char text_%d[] = "%s";' % (ci, ''.join(chr(b) for b in ch['init'])))
        elif k == 'blob':
            A('extern const std::uint8_t blob_%d[ %d ];' % (ci, n))
            A('const std::uint8_t blob_%d[ %d ] = %s;' % (ci, n, bytes_init(ch['init'])))
        elif k.startswith('handler'):
            A('gatt::blob_store store_%d;' % ci)
            A('std::uint8_t rd_%d( std::size_t o, std::size_t n, std::uint8_t* out, std::size_t& os ) { return store_%d.read( o, n, out, os ); }' % (ci, ci))
            A('std::uint8_t wr_%d( std::size_t o, std::size_t n, const std::uint8_t* v ) { return store_%d.write( o, n, v ); }' % (ci, ci))
        if ch['name']:
            A('extern const char name_%d[];' % ci)
            A('const char name_%d[] = "%s";' % (ci, ch['name']))
        for di, d in enumerate(ch['descriptors']):
            A('extern const std::uint8_t desc_%d_%d[ %d ];' % (ci, di, len(d['value'])))
            A('const std::uint8_t desc_%d_%d[ %d ] = %s;' % (ci, di, len(d['value']), bytes_init(d['value'])))
    A('gatt::cccd_recorder cccd_recorder;')
    # declaration
    A('using server_t = bluetoe::server<')
    opts = []
    for svc in cfg['services']:
        so = [cpp_uuid(svc['uuid'], 'service')]
        if svc['enc']:
            so.append('bluetoe::' + svc['enc'])
        if svc['handle'] is not None:
            so.append('bluetoe::attribute_handle< 0x%04X >' % svc['handle'])
        for ch in svc['chars']:
            co = [cpp_uuid(ch['uuid'], 'characteristic')]
            k, ci = ch['kind'], ch['ci']
            if k == 'bind':
                co.append('bluetoe::bind_characteristic_value< std::uint8_t[ %d ], &value_%d >' % (ch['size'], ci))
            elif k == 'const_bind':
                co.append('bluetoe::bind_characteristic_value< const std::uint8_t[ %d ], &value_%d >' % (ch['size'], ci))
            elif k == 'fixed8':
                co.append('bluetoe::fixed_uint8_value< 0x%02X >' % ch['init'][0])
            elif k == 'fixed16':
                co.append('bluetoe::fixed_uint16_value< 0x%04X >' % (ch['init'][0] | ch['init'][1] << 8))
            elif k == 'fixed32':
                co.append('bluetoe::fixed_uint32_value< 0x%08X >' % (ch['init'][0] | ch['init'][1] << 8 | ch['init'][2] << 16 | ch['init'][3] << 24))
            elif k == 'cstring':
                co.append('bluetoe::cstring_value< text_%d >' % ci)
            elif k == 'blob':
                co.append('bluetoe::fixed_blob_value< blob_%d, %d >' % (ci, ch['size']))
            elif k == 'handler_rw':
                co += ['bluetoe::free_read_blob_handler< &rd_%d >' % ci, 'bluetoe::free_write_blob_handler< &wr_%d >' % ci]
            elif k == 'handler_r':
                co.append('bluetoe::free_read_blob_handler< &rd_%d >' % ci)
            elif k == 'handler_w':
                co.append('bluetoe::free_write_blob_handler< &wr_%d >' % ci)
            co += ['bluetoe::' + o for o in ch['opts']]
            if ch['enc']:
                co.append('bluetoe::' + ch['enc'])
            if ch['name']:
                co.append('bluetoe::characteristic_name< name_%d >' % ci)
            for di, d in enumerate(ch['descriptors']):
                co.append('bluetoe::descriptor< 0x%04X, desc_%d_%d, %d >' % (d['uuid16'], ci, di, len(d['value'])))
            if ch['handles']:
                if ch['handles'][0] == 'attribute_handle':
                    co.append('bluetoe::attribute_handle< 0x%04X >' % ch['handles'][1])
                else:
                    co.append('bluetoe::attribute_handles< 0x%04X, 0x%04X, 0x%04X >' % ch['handles'][1:])
            so.append('bluetoe::characteristic<\n            ' + ',\n            '.join(co) + ' >')
        if cfg.get('prio_service') and cfg['services'][cfg['prio_service'][0]] is svc:
            so.append('bluetoe::higher_outgoing_priority< ' + ', '.join(cpp_uuid(ch['uuid'], 'characteristic') for ch in cfg['prio_service'][1]) + ' >')
        if svc['secondary']:
            so.append('bluetoe::is_secondary_service')     # secondary_service<> itself is not usable inside a server (handle mapping matches service<> only)
        opts.append('bluetoe::service<\n        ' + ',\n        '.join(so) + ' >')
    if cfg.get('prio_server'):
        opts.append('bluetoe::higher_outgoing_priority< ' + ', '.join(cpp_uuid(cfg['services'][si]['uuid'], 'service') for si in cfg['prio_server']) + ' >')
    if cfg['enc']:
        opts.append('bluetoe::' + cfg['enc'])
    if cfg['max_mtu'] != 23 or cfg['index'] % 2:
        opts.append('bluetoe::max_mtu_size< %d >' % cfg['max_mtu'])
    if cfg['queue']:
        opts.append('bluetoe::shared_write_queue< %d >' % cfg['queue'])
    if not cfg['gap']:
        opts.append('bluetoe::no_gap_service_for_gatt_servers')
    opts.append('bluetoe::client_characteristic_configuration_update_callback< gatt::cccd_recorder, cccd_recorder >')
    A('    ' + ',\n    '.join(opts))
    A('>;')
    # model tables
    server_enc = enc_value(False, cfg['enc'])
    A('const gatt::service_desc services[] = {')
    for svc in cfg['all_services']:
        A('    { 0x%04x, 0x%04x, %s, %d, %s },' % (svc['decl_handle'], svc['end_handle'], 'false' if svc['secondary'] else 'true', len(svc['uuid']['bytes']), bytes_init(svc['uuid']['bytes'])))
    A('};')
    A('const gatt::char_desc chars[] = {')
    cccd_chars = [ch for ch in chars_flat if Gen.has_cccd(ch)]
    cccd_index_of = {id(ch): k for k, ch in enumerate(cccd_chars)}       # the model numbers CCCDs in declaration order
    for ch in chars_flat:
        svc = cfg['all_services'][ch['si']]
        enc = enc_value(enc_value(server_enc, svc['enc']), ch['enc'])
        hs = ch['attr_handles']
        has_cccd = Gen.has_cccd(ch)
        kind_id = {'bind': 'gatt::v_bind', 'const_bind': 'gatt::v_const', 'fixed8': 'gatt::v_const', 'fixed16': 'gatt::v_const', 'fixed32': 'gatt::v_const', 'cstring': 'gatt::v_const',
                   'blob': 'gatt::v_const', 'handler_rw': 'gatt::v_handler', 'handler_r': 'gatt::v_handler', 'handler_w': 'gatt::v_handler'}[ch['kind']]
        props = (0x02 if readable(ch) else 0) | (0x08 if writable(ch) and 'only_write_without_response' not in ch['opts'] else 0) | \
                (0x04 if ('only_write_without_response' in ch['opts'] or 'write_without_response' in ch['opts']) else 0) | \
                (0x10 if 'notify' in ch['opts'] else 0) | (0x20 if 'indicate' in ch['opts'] else 0)
        ptr = 'nullptr'
        store = 'nullptr'
        if ch['kind'] == 'bind':
            ptr = 'value_%d' % ch['ci']
        elif ch['kind'].startswith('handler'):
            store = '&store_%d' % ch['ci']
        A('    { %d, %s, %d, %s, %s, %s, %s, %s, %s, 0x%02x, 0x%04x, 0x%04x, 0x%04x, %d, %d, %s, %s, %s, %s },' % (
            ch['si'], kind_id, ch['size'], 'true' if readable(ch) else 'false', 'true' if writable(ch) else 'false',
            'true' if 'notify' in ch['opts'] else 'false', 'true' if 'indicate' in ch['opts'] else 'false', 'true' if enc else 'false',
            'true' if ch['kind'] in ('handler_rw', 'handler_r') else 'false',
            props, hs[0], hs[1], hs[2] if has_cccd else 0, cccd_index_of[id(ch)] if has_cccd else -1, len(ch['uuid']['bytes']), bytes_init(ch['uuid']['bytes']),
            bytes_init(ch['init']) if ch['size'] else '{ 0 }', ptr, store))
    A('};')
    A('const gatt::attr_desc attrs[] = {')
    for si, svc in enumerate(cfg['all_services']):
        A('    { 0x%04x, gatt::a_service, 0x%04x, %d, -1, 0, %d, %s },' % (svc['decl_handle'], 0x2801 if svc['secondary'] else 0x2800, si, len(svc['uuid']['bytes']), bytes_init(svc['uuid']['bytes'])))
        for ch in svc['chars']:
            hs = ch['attr_handles']
            ci = ch['ci']
            A('    { 0x%04x, gatt::a_char_decl, 0x2803, %d, %d, 0, 0, { 0 } },' % (hs[0], si, ci))
            u = ch['uuid']
            A('    { 0x%04x, gatt::a_value, 0x%04x, %d, %d, 0, 0, { 0 } },' % (hs[1], u['v16'] if u['is16'] else 0, si, ci))
            pos = 2
            if Gen.has_cccd(ch):
                A('    { 0x%04x, gatt::a_cccd, 0x2902, %d, %d, 0, 0, { 0 } },' % (hs[pos], si, ci))
                pos += 1
            if ch['name']:
                nb = [ord(c) for c in ch['name']]
                A('    { 0x%04x, gatt::a_const, 0x2901, %d, %d, 0, %d, %s },' % (hs[pos], si, ci, len(nb), bytes_init(nb)))
                pos += 1
            for d in ch['descriptors']:
                A('    { 0x%04x, gatt::a_const, 0x%04x, %d, %d, 0, %d, %s },' % (hs[pos], d['uuid16'], si, ci, len(d['value']), bytes_init(d['value'])))
                pos += 1
    A('};')
    n_cccd = len(cccd_chars)
    # where the server keeps the flags of the k-th CCCD (its position after sorting by outgoing priority): storage layout only, asked from the server type
    A('const int cccd_storage[] = { ' + ', '.join('static_cast< int >( bluetoe::details::index_of< std::integral_constant< std::size_t, %d >, server_t::cccd_indices >::value )' % k for k in range(n_cccd)) + (' ' if n_cccd else '-1 ') + '};')
    A('const gatt::config_desc config = { %d, %d, %d, %d, services, sizeof( services ) / sizeof( services[ 0 ] ), chars, sizeof( chars ) / sizeof( chars[ 0 ] ), attrs, sizeof( attrs ) / sizeof( attrs[ 0 ] ), cccd_storage };' % (
        i, cfg['max_mtu'], cfg['queue'], n_cccd))
    # application entry points
    A('bool app_request( server_t& srv, int ci, bool indication, bool by_uuid )')
    A('{')
    A('    (void)srv; (void)indication; (void)by_uuid;')
    A('    switch ( ci ) {')
    for ch in chars_flat:
        if not Gen.has_cccd(ch) or ch.get('gap'):
            continue
        ci = ch['ci']
        uu = cpp_uuid(ch['uuid'], 'characteristic')
        can_n, can_i = 'notify' in ch['opts'], 'indicate' in ch['opts']
        A('    case %d:' % ci)
        if ch['kind'] == 'bind' or ch['kind'] == 'const_bind':
            if can_n:
                A('        if ( !indication && !by_uuid ) return srv.notify( value_%d );' % ci)
            if can_i:
                A('        if ( indication && !by_uuid ) return srv.indicate( value_%d );' % ci)
        if can_n:
            A('        if ( !indication ) return srv.template notify< %s >();' % uu)
        if can_i:
            A('        if ( indication ) return srv.template indicate< %s >();' % uu)
        A('        return false;')
    A('    }')
    A('    return false;')
    A('}')
    A('void reset_values()')
    A('{')
    for ch in chars_flat:
        if ch['kind'] == 'bind':
            A('    { static const std::uint8_t init[] = %s; std::memcpy( value_%d, init, %d ); }' % (bytes_init(ch['init']), ch['ci'], ch['size']))
        elif ch['kind'].startswith('handler'):
            A('    { static const std::uint8_t init[] = %s; store_%d.reset( init, %d, %d ); }' % (bytes_init(ch['init']), ch['ci'], ch['size'] // 2, ch['size']))
    A('    cccd_recorder.calls = 0;')
    A('}')
    A('}')
    A('const gatt::config_desc& gatt_cfg_desc_%d() { return cfg_%d::config; }' % (i, i))
    A('void run_gatt_cfg_%d( const sim::Plan& plan, sim::Result& res )' % i)
    A('{')
    A('    gatt::world< cfg_%d::server_t > w( cfg_%d::config, &cfg_%d::app_request, &cfg_%d::reset_values, &cfg_%d::cccd_recorder );' % (i, i, i, i, i))
    A('    w.run( plan, res );')
    A('}')
    with open(os.path.join(out, 'gatt_cfg_%d.cpp' % i), 'w') as f:
        f.write('\n'.join(L) + '\n')


def main():
    out, n = sys.argv[1], int(sys.argv[2])
    seed = int(sys.argv[3]) if len(sys.argv) > 3 else 0
    os.makedirs(out, exist_ok=True)
    for i in range(n):
        rng = random.Random(seed * 1000 + i)
        cfg = Gen(rng, i).config()
        emit(cfg, out)
    with open(os.path.join(out, 'gatt_cfg_list.hpp'), 'w') as f:
        f.write('// generated\n')
        for i in range(n):
            f.write('void run_gatt_cfg_%d( const sim::Plan&, sim::Result& );\n' % i)
            f.write('const gatt::config_desc& gatt_cfg_desc_%d();\n' % i)
        f.write('static constexpr int n_gatt_configs = %d;\n' % n)
        f.write('typedef void ( *gatt_runner )( const sim::Plan&, sim::Result& );\n')
        f.write('static const gatt_runner gatt_runners[] = { %s };\n' % ', '.join('&run_gatt_cfg_%d' % i for i in range(n)))
        f.write('typedef const gatt::config_desc& ( *gatt_desc_fn )();\n')
        f.write('static const gatt_desc_fn gatt_descs[] = { %s };\n' % ', '.join('&gatt_cfg_desc_%d' % i for i in range(n)))


if __name__ == '__main__':
    main()
